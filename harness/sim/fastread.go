package sim

import (
	"context"
	"reflect"
	"sort"

	apierrors "k8s.io/apimachinery/pkg/api/errors"
	"k8s.io/apimachinery/pkg/api/meta"
	"k8s.io/apimachinery/pkg/apis/meta/v1/unstructured"
	"k8s.io/apimachinery/pkg/runtime"
	"k8s.io/apimachinery/pkg/runtime/schema"
	"sigs.k8s.io/controller-runtime/pkg/client"
	"sigs.k8s.io/controller-runtime/pkg/client/apiutil"
)

// Fast read paths. The controller-runtime fake client serialises every object to JSON and decodes it again
// on each Get / List, which dominated the explorer's run time. For typed reads of typed stored objects the
// result is obtained by a deep copy instead (same observable result: a private copy with TypeMeta set);
// everything else (unstructured, field selectors, type mismatches) falls back to the fake client.

func (c *Client) fastGet(key client.ObjectKey, obj client.Object) (handled bool, err error) {
	if _, isU := obj.(*unstructured.Unstructured); isU {
		return false, nil
	}
	gvk, err := apiutil.GVKForObject(obj, c.store.scheme)
	if err != nil {
		return false, nil
	}
	gvr, _ := meta.UnsafeGuessKindToResource(gvk)
	stored, ok := c.store.objs[ObjKey{gvr, key.Namespace, key.Name}]
	if !ok {
		return true, apierrors.NewNotFound(gvr.GroupResource(), key.Name)
	}
	if reflect.TypeOf(stored) != reflect.TypeOf(obj) {
		return false, nil
	}
	cp := stored.DeepCopyObject()
	reflect.ValueOf(obj).Elem().Set(reflect.ValueOf(cp).Elem())
	obj.GetObjectKind().SetGroupVersionKind(gvk)
	return true, nil
}

func (c *Client) fastList(list client.ObjectList, opts []client.ListOption) (handled bool, err error) {
	if _, isU := list.(*unstructured.UnstructuredList); isU {
		return false, nil
	}
	lo := client.ListOptions{}
	lo.ApplyOptions(opts)
	if lo.FieldSelector != nil && !lo.FieldSelector.Empty() {
		return false, nil
	}
	gvk, err := apiutil.GVKForObject(list, c.store.scheme)
	if err != nil || len(gvk.Kind) < 5 {
		return false, nil
	}
	itemGVK := schema.GroupVersionKind{Group: gvk.Group, Version: gvk.Version, Kind: gvk.Kind[:len(gvk.Kind)-4]}
	gvr, _ := meta.UnsafeGuessKindToResource(itemGVK)
	itemsField := reflect.ValueOf(list).Elem().FieldByName("Items")
	if !itemsField.IsValid() || itemsField.Kind() != reflect.Slice {
		return false, nil
	}
	elemType := itemsField.Type().Elem()
	var keys []ObjKey
	for k := range c.store.objs {
		if k.GVR == gvr && (lo.Namespace == "" || k.Namespace == lo.Namespace) {
			keys = append(keys, k)
		}
	}
	sort.Slice(keys, func(i, j int) bool { return keys[i].String() < keys[j].String() })
	out := reflect.MakeSlice(itemsField.Type(), 0, len(keys))
	for _, k := range keys {
		stored := c.store.objs[k]
		if lo.LabelSelector != nil && !lo.LabelSelector.Empty() {
			if !lo.LabelSelector.Matches(labelsOf(stored)) {
				continue
			}
		}
		sv := reflect.ValueOf(stored)
		var ev reflect.Value
		switch {
		case elemType.Kind() == reflect.Struct && sv.Elem().Type() == elemType:
			cp := stored.DeepCopyObject()
			ev = reflect.ValueOf(cp).Elem()
		case elemType.Kind() == reflect.Ptr && sv.Type() == elemType:
			ev = reflect.ValueOf(stored.DeepCopyObject())
		default:
			return false, nil
		}
		out = reflect.Append(out, ev)
	}
	itemsField.Set(out)
	return true, nil
}

type labelSet map[string]string

func (l labelSet) Has(k string) bool   { _, ok := l[k]; return ok }
func (l labelSet) Get(k string) string { return l[k] }

func labelsOf(o runtime.Object) labelSet { return labelSet(accessor(o).GetLabels()) }

// fastGetInto is World.Get without any client: direct typed copy from the store.
func (w *World) fastGetInto(obj client.Object, ns, name string) bool {
	handled, err := w.Client.fastGet(client.ObjectKey{Namespace: ns, Name: name}, obj)
	if handled {
		return err == nil
	}
	return w.Raw.Get(context.TODO(), client.ObjectKey{Namespace: ns, Name: name}, obj) == nil
}
