package sim

import (
	"fmt"
	"strings"

	rolloutsv1beta1 "github.com/openkruise/rollouts/api/v1beta1"
)

// settledKind classifies a state for the liveness analysis: "" = the rollout still owes progress,
// otherwise why it is allowed to rest here.
func settledKind(w *World, sc *Scenario) string {
	ro := getRollout(w, sc)
	switch {
	case ro == nil:
		return "rollout-gone"
	case ro.Status.Phase == rolloutsv1beta1.RolloutPhaseDisabled:
		return "disabled"
	case ro.Status.Phase == rolloutsv1beta1.RolloutPhaseHealthy && ro.DeletionTimestamp == nil:
		return "healthy"
	case ro.Spec.Strategy.Paused && ro.DeletionTimestamp == nil:
		return "paused-by-user"
	}
	if ro.Status.Phase == rolloutsv1beta1.RolloutPhaseProgressing {
		idx, st, _, ok := StepCursor(ro)
		steps := ro.Spec.Strategy.GetSteps()
		if ok && st == string(rolloutsv1beta1.CanaryStepStatePaused) && int(idx) >= 1 && int(idx) <= len(steps) && steps[idx-1].Pause.Duration == nil {
			return "waiting-for-approval"
		}
		if strings.Contains(ro.Status.Message, "bad request") || strings.Contains(strings.ToLower(ro.Status.Message), "not support") {
			return "refused-request"
		}
	}
	return ""
}

// Liveness runs the graph analyses of C07 on a completely explored graph (real queues).
func (ex *Explorer) Liveness() {
	if ex.Capped {
		return
	}
	n := len(ex.nodes)
	// Tarjan SCC over fair edges (iterative)
	index := make([]int, n)
	low := make([]int, n)
	comp := make([]int, n)
	onStack := make([]bool, n)
	for i := range index {
		index[i], comp[i] = -1, -1
	}
	var stack []int
	idx, ncomp := 0, 0
	type frame struct{ v, ei int }
	for s := 0; s < n; s++ {
		if index[s] != -1 {
			continue
		}
		call := []frame{{s, 0}}
		index[s], low[s] = idx, idx
		idx++
		stack = append(stack, s)
		onStack[s] = true
		for len(call) > 0 {
			f := &call[len(call)-1]
			v := f.v
			advanced := false
			for f.ei < len(ex.nodes[v].edges) {
				e := ex.nodes[v].edges[f.ei]
				f.ei++
				if !e.fair {
					continue
				}
				t := e.to
				if index[t] == -1 {
					index[t], low[t] = idx, idx
					idx++
					stack = append(stack, t)
					onStack[t] = true
					call = append(call, frame{t, 0})
					advanced = true
					break
				} else if onStack[t] && index[t] < low[v] {
					low[v] = index[t]
				}
			}
			if advanced {
				continue
			}
			if low[v] == index[v] {
				for {
					t := stack[len(stack)-1]
					stack = stack[:len(stack)-1]
					onStack[t] = false
					comp[t] = ncomp
					if t == v {
						break
					}
				}
				ncomp++
			}
			call = call[:len(call)-1]
			if len(call) > 0 {
				p := call[len(call)-1].v
				if low[v] < low[p] {
					low[p] = low[v]
				}
			}
		}
	}
	// bottom components: no fair edge leaving the component
	bottom := make([]bool, ncomp)
	size := make([]int, ncomp)
	wrote := make([]string, ncomp)
	for i := range bottom {
		bottom[i] = true
	}
	for v := 0; v < n; v++ {
		size[comp[v]]++
		for _, e := range ex.nodes[v].edges {
			if !e.fair {
				continue
			}
			if comp[e.to] != comp[v] {
				bottom[comp[v]] = false
			} else if e.wrote && e.to != v {
				wrote[comp[v]] = e.label
			}
		}
	}
	ex.Counters["C07 fair-graph strongly connected components"] = int64(ncomp)
	for v := 0; v < n; v++ {
		c := comp[v]
		if !bottom[c] {
			continue
		}
		nd := ex.nodes[v]
		if !nd.expanded {
			continue
		}
		ex.W.Restore(nd.snap)
		kind := settledKind(ex.W, ex.Cfg.Sc)
		ex.Counters["C07 bottom-component states judged"]++
		x := &Ctx{W: ex.W, Sc: ex.Cfg.Sc, Mon: nd.mon.clone(), ex: ex, node: nd}
		if kind == "" {
			hasOut := false
			for _, e := range nd.edges {
				if e.fair {
					hasOut = true
				}
			}
			ro := getRollout(ex.W, ex.Cfg.Sc)
			desc := "rollout gone"
			if ro != nil {
				i, st, _, _ := StepCursor(ro)
				desc = fmt.Sprintf("phase=%s reason=%s step=%d state=%s", ro.Status.Phase, progressingReason(ro), i, st)
			}
			// where and for which kind of workload the release hangs is part of the signature
			where := "/" + ex.Cfg.Sc.Kind + "-" + ex.Cfg.Sc.Style
			if ex.Cfg.Sc.Traffic != "" {
				where += "+" + ex.Cfg.Sc.Traffic
			}
			if ro != nil {
				_, st, _, _ := StepCursor(ro)
				where += "/" + progressingReason(ro) + "-" + st
			}
			if !hasOut {
				x.Violate("C07/wakeup/stuck-without-pending-wakeup"+where, "no reconcile is queued, no timer is pending and the environment has converged, but the rollout is not finished ("+desc+"): it waits for a wake-up that will not come")
			} else if wrote[c] != "" {
				x.Violate("C07/oscillate/writes-in-a-cycle"+where, fmt.Sprintf("the rollout can loop forever through %d states without finishing (%s); the cycle contains the store-changing transition %s", size[c], desc, wrote[c]))
			} else {
				x.Violate("C07/scc/never-finishes"+where, fmt.Sprintf("the rollout can loop forever through %d states without finishing (%s)", size[c], desc))
			}
		} else {
			ex.Terminals[kind]++
			if wrote[c] != "" && size[c] > 1 {
				x.Violate("C07/oscillate/writes-after-settling", fmt.Sprintf("after settling (%s) the controllers keep rewriting the store in a cycle of %d states (transition %s)", kind, size[c], wrote[c]))
			}
		}
	}
}
