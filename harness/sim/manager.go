package sim

import (
	"context"
	"fmt"
	"math"
	"net/http"
	"sort"
	"time"

	"github.com/go-logr/logr"
	"k8s.io/apimachinery/pkg/api/meta"
	"k8s.io/apimachinery/pkg/apis/meta/v1/unstructured"
	"k8s.io/apimachinery/pkg/runtime"
	"k8s.io/apimachinery/pkg/runtime/schema"
	"k8s.io/client-go/rest"
	"k8s.io/client-go/tools/record"
	"sigs.k8s.io/controller-runtime/pkg/cache"
	"sigs.k8s.io/controller-runtime/pkg/client"
	"sigs.k8s.io/controller-runtime/pkg/config/v1alpha1"
	"sigs.k8s.io/controller-runtime/pkg/controller"
	"sigs.k8s.io/controller-runtime/pkg/event"
	"sigs.k8s.io/controller-runtime/pkg/handler"
	"sigs.k8s.io/controller-runtime/pkg/healthz"
	"sigs.k8s.io/controller-runtime/pkg/manager"
	"sigs.k8s.io/controller-runtime/pkg/predicate"
	"sigs.k8s.io/controller-runtime/pkg/reconcile"
	"sigs.k8s.io/controller-runtime/pkg/source"
	"sigs.k8s.io/controller-runtime/pkg/webhook"
)

// ---------------------------------------------------------------------------------------------
// Queue model: what a controller-runtime workqueue would hold, with virtual time.
// ---------------------------------------------------------------------------------------------

// Queue is the recording workqueue of one controller.
type Queue struct {
	Immediate []reconcile.Request         // in arrival order, no duplicates
	Delayed   map[reconcile.Request]int64 // key -> due (virtual unix seconds)
	now       func() int64
}

func newQueue(now func() int64) *Queue {
	return &Queue{Delayed: map[reconcile.Request]int64{}, now: now}
}

func (q *Queue) clone() *Queue {
	c := &Queue{Immediate: append([]reconcile.Request(nil), q.Immediate...), Delayed: make(map[reconcile.Request]int64, len(q.Delayed)), now: q.now}
	for k, v := range q.Delayed {
		c.Delayed[k] = v
	}
	return c
}

func (q *Queue) has(r reconcile.Request) bool {
	for _, x := range q.Immediate {
		if x == r {
			return true
		}
	}
	return false
}

func (q *Queue) addNow(r reconcile.Request) {
	if !q.has(r) {
		q.Immediate = append(q.Immediate, r)
	}
}

func (q *Queue) addAfter(r reconcile.Request, d time.Duration) {
	if d <= 0 {
		q.addNow(r)
		return
	}
	due := q.now() + int64(math.Ceil(d.Seconds()))
	if old, ok := q.Delayed[r]; !ok || due < old {
		q.Delayed[r] = due
	}
}

// Ready returns the keys that may be reconciled now (immediate, or delayed and due), canonical order.
func (q *Queue) Ready() []reconcile.Request {
	set := map[reconcile.Request]bool{}
	for _, r := range q.Immediate {
		set[r] = true
	}
	for r, due := range q.Delayed {
		if due <= q.now() {
			set[r] = true
		}
	}
	out := make([]reconcile.Request, 0, len(set))
	for r := range set {
		out = append(out, r)
	}
	sort.Slice(out, func(i, j int) bool { return out[i].String() < out[j].String() })
	return out
}

// NextDue returns the earliest due time of a not-yet-due delayed key (0 if none).
func (q *Queue) NextDue() int64 {
	var best int64
	for _, due := range q.Delayed {
		if due > q.now() && (best == 0 || due < best) {
			best = due
		}
	}
	return best
}

func (q *Queue) pop(r reconcile.Request) {
	for i, x := range q.Immediate {
		if x == r {
			q.Immediate = append(q.Immediate[:i:i], q.Immediate[i+1:]...)
			break
		}
	}
	if due, ok := q.Delayed[r]; ok && due <= q.now() {
		delete(q.Delayed, r)
	}
}

// rlq adapts Queue to workqueue.RateLimitingInterface for the real event handlers.
type rlq struct{ q *Queue }

func (a rlq) Add(item interface{}) { a.q.addNow(item.(reconcile.Request)) }
func (a rlq) Len() int             { return len(a.q.Immediate) }
func (a rlq) Get() (interface{}, bool) {
	panic("verif: Get on recording queue")
}
func (a rlq) Done(item interface{})                      {}
func (a rlq) ShutDown()                                  {}
func (a rlq) ShutDownWithDrain()                         {}
func (a rlq) ShuttingDown() bool                         { return false }
func (a rlq) AddAfter(item interface{}, d time.Duration) { a.q.addAfter(item.(reconcile.Request), d) }
func (a rlq) AddRateLimited(item interface{})            { a.q.addAfter(item.(reconcile.Request), time.Second) }
func (a rlq) Forget(item interface{})                    {}
func (a rlq) NumRequeues(item interface{}) int           { return 0 }

// ---------------------------------------------------------------------------------------------
// Recording controller + fake manager: the repository's own setup code runs against these.
// ---------------------------------------------------------------------------------------------

type watchReg struct {
	gvk        schema.GroupVersionKind
	handler    handler.EventHandler
	predicates []predicate.Predicate
}

// Ctl is one controller as registered by the repository's setup code.
type Ctl struct {
	Name       string
	Short      string // R, B, T, D
	Reconciler reconcile.Reconciler
	Queue      *Queue
	watches    []watchReg
	scheme     *runtime.Scheme
	cache      cache.Cache
}

var _ controller.Controller = &Ctl{}

func (c *Ctl) Reconcile(ctx context.Context, r reconcile.Request) (reconcile.Result, error) {
	return c.Reconciler.Reconcile(ctx, r)
}

func (c *Ctl) Watch(src source.Source, h handler.EventHandler, prct ...predicate.Predicate) error {
	k, ok := src.(*source.Kind)
	if !ok {
		return fmt.Errorf("verif: unsupported source %T", src)
	}
	var gvk schema.GroupVersionKind
	if u, ok := k.Type.(*unstructured.Unstructured); ok {
		gvk = u.GroupVersionKind()
	} else {
		gvks, _, err := c.scheme.ObjectKinds(k.Type)
		if err != nil || len(gvks) == 0 {
			return fmt.Errorf("verif: no kind for watch type %T: %v", k.Type, err)
		}
		gvk = gvks[0]
	}
	// handlers that want a cache/scheme injected (EnqueueRequestForOwner)
	if inj, ok := h.(interface{ InjectScheme(*runtime.Scheme) error }); ok {
		_ = inj.InjectScheme(c.scheme)
	}
	if inj, ok := h.(interface{ InjectMapper(meta.RESTMapper) error }); ok {
		_ = inj.InjectMapper(restMapperFor(c.scheme))
	}
	c.watches = append(c.watches, watchReg{gvk: gvk, handler: h, predicates: prct})
	return nil
}

func (c *Ctl) Start(ctx context.Context) error { return nil }
func (c *Ctl) GetLogger() logr.Logger          { return logr.Discard() }

// Watches lists the registered (kind, handler type) pairs, for evidence.
func (c *Ctl) Watches() []string {
	var out []string
	for _, w := range c.watches {
		out = append(out, fmt.Sprintf("%s -> %T (%d predicates)", w.gvk.Kind, w.handler, len(w.predicates)))
	}
	return out
}

func restMapperFor(s *runtime.Scheme) meta.RESTMapper {
	m := meta.NewDefaultRESTMapper(nil)
	for gvk := range s.AllKnownTypes() {
		m.Add(gvk, meta.RESTScopeNamespace)
	}
	return m
}

// deliver feeds one write to this controller's real handlers through the recorded predicates.
func (c *Ctl) deliver(w *Write, gvk schema.GroupVersionKind) {
	for _, reg := range c.watches {
		if reg.gvk != gvk {
			continue
		}
		q := rlq{c.Queue}
		switch w.Verb {
		case "create":
			ev := event.CreateEvent{Object: w.After.DeepCopyObject().(client.Object)}
			ok := true
			for _, p := range reg.predicates {
				ok = ok && p.Create(ev)
			}
			if ok {
				reg.handler.Create(ev, q)
			}
		case "update":
			ev := event.UpdateEvent{ObjectOld: w.Before.DeepCopyObject().(client.Object), ObjectNew: w.After.DeepCopyObject().(client.Object)}
			ok := true
			for _, p := range reg.predicates {
				ok = ok && p.Update(ev)
			}
			if ok {
				reg.handler.Update(ev, q)
			}
		case "delete":
			ev := event.DeleteEvent{Object: w.Before.DeepCopyObject().(client.Object)}
			ok := true
			for _, p := range reg.predicates {
				ok = ok && p.Delete(ev)
			}
			if ok {
				reg.handler.Delete(ev, q)
			}
		}
	}
}

// fakeManager is the manager.Manager handed to the repository's setup functions.
type fakeManager struct {
	scheme   *runtime.Scheme
	client   client.Client
	cache    cache.Cache
	recorder record.EventRecorder
}

var _ manager.Manager = &fakeManager{}

func (m *fakeManager) SetFields(interface{}) error                       { return nil }
func (m *fakeManager) GetConfig() *rest.Config                           { return &rest.Config{} }
func (m *fakeManager) GetScheme() *runtime.Scheme                        { return m.scheme }
func (m *fakeManager) GetClient() client.Client                          { return m.client }
func (m *fakeManager) GetFieldIndexer() client.FieldIndexer              { return m.cache }
func (m *fakeManager) GetCache() cache.Cache                             { return m.cache }
func (m *fakeManager) GetEventRecorderFor(string) record.EventRecorder   { return m.recorder }
func (m *fakeManager) GetRESTMapper() meta.RESTMapper                    { return restMapperFor(m.scheme) }
func (m *fakeManager) GetAPIReader() client.Reader                       { return m.cache }
func (m *fakeManager) Start(ctx context.Context) error                   { return nil }
func (m *fakeManager) Add(manager.Runnable) error                        { return nil }
func (m *fakeManager) Elected() <-chan struct{}                          { ch := make(chan struct{}); close(ch); return ch }
func (m *fakeManager) AddMetricsExtraHandler(string, http.Handler) error { return nil }
func (m *fakeManager) AddHealthzCheck(string, healthz.Checker) error     { return nil }
func (m *fakeManager) AddReadyzCheck(string, healthz.Checker) error      { return nil }
func (m *fakeManager) GetWebhookServer() *webhook.Server                 { return nil }
func (m *fakeManager) GetLogger() logr.Logger                            { return logr.Discard() }
func (m *fakeManager) GetControllerOptions() v1alpha1.ControllerConfigurationSpec {
	return v1alpha1.ControllerConfigurationSpec{}
}

// readerCache is the "informer cache": linearizable reads straight from the store (no lag, no faults).
type readerCache struct {
	client.Reader
}

func (readerCache) GetInformer(ctx context.Context, obj client.Object) (cache.Informer, error) {
	return nil, fmt.Errorf("verif: informers are not modelled")
}
func (readerCache) GetInformerForKind(ctx context.Context, gvk schema.GroupVersionKind) (cache.Informer, error) {
	return nil, fmt.Errorf("verif: informers are not modelled")
}
func (readerCache) Start(ctx context.Context) error           { return nil }
func (readerCache) WaitForCacheSync(ctx context.Context) bool { return true }
func (readerCache) IndexField(ctx context.Context, obj client.Object, field string, extractValue client.IndexerFunc) error {
	return nil
}

// drainRecorder swallows events.
type drainRecorder struct{}

func (drainRecorder) Event(object runtime.Object, eventtype, reason, message string) {}
func (drainRecorder) Eventf(object runtime.Object, eventtype, reason, messageFmt string, args ...interface{}) {
}
func (drainRecorder) AnnotatedEventf(object runtime.Object, annotations map[string]string, eventtype, reason, messageFmt string, args ...interface{}) {
}
