package sim

import (
	"strings"

	rolloutsv1beta1 "github.com/openkruise/rollouts/api/v1beta1"
)

// BaseMonitor provides no-op implementations.
type BaseMonitor struct{}

func (BaseMonitor) OnWrite(x *Ctx, w *Write)           {}
func (BaseMonitor) OnTransition(x *Ctx, t *Transition) {}
func (BaseMonitor) OnState(x *Ctx, quiescent bool)     {}

// PanicMonitor (C09.panic): no panic escapes a Reconcile or an event handler.
type PanicMonitor struct{ BaseMonitor }

func (PanicMonitor) ID() string { return "C09.panic" }

func (PanicMonitor) OnTransition(x *Ctx, t *Transition) {
	if t.Result == nil || t.Result.Panic == nil {
		return
	}
	p := t.Result.Panic
	x.Violate("C09/panic/"+p.Site, "panic in "+t.Label+": "+p.Value+"\n"+firstLines(p.Stack, 14))
}

func firstLines(s string, n int) string {
	l := strings.Split(s, "\n")
	if len(l) > n {
		l = l[:n]
	}
	return strings.Join(l, "\n")
}

// OnceMonitor (C06.once): effects happen at most once per release even under crashes and API faults:
// never two live canary Deployments, never two BatchReleases.
type OnceMonitor struct{ BaseMonitor }

func (OnceMonitor) ID() string { return "C06.once" }

func (OnceMonitor) OnWrite(x *Ctx, w *Write) {
	if w.Verb != "create" {
		return
	}
	switch w.Key.GVR.Resource {
	case "deployments":
		n := 0
		for _, o := range x.W.Store.PeekAll("deployments") {
			a := accessor(o)
			if a.GetNamespace() == x.Sc.ns() && a.GetName() != AppName && a.GetDeletionTimestamp() == nil {
				n++
			}
		}
		x.Count("C06 canary Deployment creations judged")
		if n > 1 {
			x.Violate("C06/once/two-live-canary-deployments", "a second canary Deployment was created while one is still alive")
		}
	}
}

// ContextTracker records history facts other monitors use to tell contexts apart (it reports nothing itself).
// It runs first in every plan.
type ContextTracker struct{ BaseMonitor }

func (ContextTracker) ID() string { return "context" }

func (ContextTracker) OnWrite(x *Ctx, w *Write) {
	sc := x.Sc
	if w.Key.GVR.Resource == "batchreleases" && w.Verb == "create" {
		if v := ViewWorkload(x.W, sc); v != nil {
			x.Mon["ctx.brRev"] = shortHash(v.UpdateRev)
		}
		delete(x.Mon, "ctx.supersededKnob")
	}
	// the Rollout controller forgets an ongoing release: the workload vanished and the status is reset to Initial
	// ("Workload Not Found") while the release had progressed
	if w.Actor == "R" && w.Status && w.Key.GVR.Resource == "rollouts" && w.Before != nil && w.After != nil {
		b, a := asRollout(w.Before), asRollout(w.After)
		if b != nil && a != nil && a.Status.Phase == rolloutsv1beta1.RolloutPhaseInitial && a.Status.Message == "Workload Not Found" &&
			b.Status.Phase == rolloutsv1beta1.RolloutPhaseProgressing {
			x.Mon["ctx.forgotRelease"] = "1"
		}
		// the same happens when a release is superseded (or reverted before any pod was updated): doProgressingReset ends
		// by clearing the sub-status ("Workload is continuous release") and the next pass starts from scratch; until it
		// has re-established itself the Rollout does not know what the previous pass modified
		if b != nil && a != nil && !b.Status.IsSubStatusEmpty() && a.Status.IsSubStatusEmpty() && b.Status.Phase == rolloutsv1beta1.RolloutPhaseProgressing {
			x.Mon["ctx.statusReset"] = "1"
		}
		if a != nil && !a.Status.IsSubStatusEmpty() {
			delete(x.Mon, "ctx.statusReset") // a new pass has recorded its own state
		}
	}
	// the BatchRelease controller raises the exposure although the workload's revision is no longer the one the
	// BatchRelease was created for (the release was superseded and the Rollout has not replaced it yet)
	if w.Actor == "B" && w.Verb == "update" && !w.Status && w.Key.GVR.Resource == workloadResource(sc) && w.Before != nil && w.After != nil {
		if exposureOf(sc, w.After) > exposureOf(sc, w.Before) && exposureOf(sc, w.Before) >= 0 {
			if v := ViewWorkload(x.W, sc); v != nil && x.Mon["ctx.brRev"] != "" && x.Mon["ctx.brRev"] != shortHash(v.UpdateRev) {
				x.Mon["ctx.supersededKnob"] = "1"
			}
		}
	}
}

// OnTransition remembers which BatchRelease (if any) existed when the user reverted / superseded the release:
// the cancellation-order obligations of C10 concern that BatchRelease, not one created afterwards.
func (ContextTracker) OnTransition(x *Ctx, t *Transition) {
	if t.Actor != "user" || !(strings.HasSuffix(t.Label, ":rollback") || strings.HasSuffix(t.Label, ":release3")) {
		return
	}
	x.Mon["ctx.brAtCancel"] = "none"
	// a revert that arrives after the last step completed and the Rollout is already finalising the successful
	// release is not a revert "during a rollout": the controller has no cancellation to perform any more
	if ro := getRollout(x.W, x.Sc); ro == nil || progressingReason(ro) != "InRolling" {
		if ro != nil && ro.Status.Phase == rolloutsv1beta1.RolloutPhaseProgressing {
			x.Mon["ctx.templateChangedWhileFinalising"] = "1"
		}
		return
	}
	for _, o := range x.W.Store.PeekAll("batchreleases") {
		if accessor(o).GetNamespace() == x.Sc.ns() && accessor(o).GetName() == AppName {
			x.Mon["ctx.brAtCancel"] = string(accessor(o).GetUID())
		}
	}
}
