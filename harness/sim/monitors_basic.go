package sim

import "strings"

// BaseMonitor provides no-op implementations.
type BaseMonitor struct{}

func (BaseMonitor) OnWrite(x *Ctx, w *Write)           {}
func (BaseMonitor) OnTransition(x *Ctx, t *Transition) {}
func (BaseMonitor) OnState(x *Ctx, quiescent bool)     {}

// PanicMonitor (C09.panic): no panic escapes a Reconcile or an event handler.
type PanicMonitor struct{ BaseMonitor }

func (PanicMonitor) ID() string { return "C09.panic" }

func (PanicMonitor) OnTransition(x *Ctx, t *Transition) {
	if t.Result == nil || t.Result.Panic == nil {
		return
	}
	p := t.Result.Panic
	x.Violate("C09/panic/"+p.Site, "panic in "+t.Label+": "+p.Value+"\n"+firstLines(p.Stack, 14))
}

func firstLines(s string, n int) string {
	l := strings.Split(s, "\n")
	if len(l) > n {
		l = l[:n]
	}
	return strings.Join(l, "\n")
}
