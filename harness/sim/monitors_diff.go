package sim

import (
	"encoding/json"
	"fmt"
	"regexp"
	"sort"
	"strings"
)

// DiffMonitor (C06.diff) is the differential oracle of C06: "after restart the rollout continues and ends in the
// same final cluster state as an undisturbed run ... no resource is leaked or left half-configured". Every FINAL
// state (nothing changes it any more, however much time passes: the rollout waits for the user, or has ended)
// reached after a disturbance (crash, API error, conflict) must be configured exactly like some final state of the
// undisturbed search of the same scenario at the same control position. The undisturbed graph is completed before
// any disturbed continuation is expanded (two-phase search), so the reference set is complete when it is consulted.
//
// The configuration projection of a state is: the control position (ControlState: phases, step cursor, batch,
// workload counts) plus, for every stored object, its spec, labels, annotations, finalizers and owner references
// (status, resourceVersion, generation, timestamps and uids are dropped; uids inside owner references and
// annotations are replaced by the name of the object they denote; names produced by generateName are replaced by
// their prefix; pods are reduced to the multiset of their labels).
type DiffMonitor struct {
	BaseMonitor
	S *DiffShared
}

type DiffShared struct {
	Undisturbed map[string]map[string]bool // control position -> projections
	Example     map[string]string          // control position -> one projection (for the report)
}

func NewDiffShared() *DiffShared {
	return &DiffShared{Undisturbed: map[string]map[string]bool{}, Example: map[string]string{}}
}

func (*DiffMonitor) ID() string { return "C06.diff" }

var generatedNameRe = regexp.MustCompile(`-\d{5}\b`)

// ConfigProjection returns the projection as sorted lines "<resource>/<name>: <json>".
func ConfigProjection(w *World) []string {
	uidName := map[string]string{}
	for _, k := range w.Store.Keys() {
		uidName[string(accessor(w.Store.Peek(k)).GetUID())] = k.GVR.Resource + "/" + generatedNameRe.ReplaceAllString(k.Name, "-*")
	}
	var out []string
	for _, k := range w.Store.Keys() {
		if k.GVR.Resource == "events" {
			continue
		}
		obj := w.Store.Peek(k)
		b, _ := json.Marshal(obj)
		var m map[string]interface{}
		_ = json.Unmarshal(b, &m)
		delete(m, "status")
		md, _ := m["metadata"].(map[string]interface{})
		keep := map[string]interface{}{}
		if md != nil {
			for _, f := range []string{"labels", "annotations", "finalizers", "ownerReferences"} {
				if v, ok := md[f]; ok {
					keep[f] = v
				}
			}
			if md["deletionTimestamp"] != nil {
				keep["deleting"] = true
			}
		}
		m["metadata"] = keep
		if k.GVR.Resource == "pods" {
			// pods are interchangeable: keep what the controllers write on them (labels) and their deletion state
			m = map[string]interface{}{"labels": keep["labels"], "deleting": keep["deleting"]}
		}
		jb, _ := json.Marshal(m)
		s := string(jb)
		for uid, name := range uidName {
			if uid != "" {
				s = strings.ReplaceAll(s, uid, "uid("+name+")")
			}
		}
		s = generatedNameRe.ReplaceAllString(s, "-*")
		name := generatedNameRe.ReplaceAllString(k.Name, "-*")
		if k.GVR.Resource == "pods" {
			name = "*"
		}
		out = append(out, k.GVR.Resource+"/"+name+": "+s)
	}
	sort.Strings(out)
	return out
}

func (m *DiffMonitor) OnState(x *Ctx, quiescent bool) {
	if !quiescent || x.Mon["req.release"] == "" {
		return
	}
	pos := ControlState(x.W, x.Sc)
	lines := ConfigProjection(x.W)
	proj := strings.Join(lines, "\n")
	undisturbed := x.node != nil && x.ex.Undisturbed(x.node.budget)
	if undisturbed {
		if m.S.Undisturbed[pos] == nil {
			m.S.Undisturbed[pos] = map[string]bool{}
			m.S.Example[pos] = proj
		}
		m.S.Undisturbed[pos][proj] = true
		x.Count("C06 final states of the undisturbed search recorded")
		return
	}
	x.Count("C06 final states after a disturbance compared")
	ref := m.S.Undisturbed[pos]
	if ref == nil {
		// the control position itself is never final in an undisturbed run
		x.Violate("C06/differential/final-position-unknown-to-undisturbed-runs", fmt.Sprintf("after the disturbance the run comes to rest at control position %s, at which no undisturbed run of this scenario ever rests", pos))
		return
	}
	if ref[proj] {
		return
	}
	// report the difference against the closest undisturbed projection at this position
	best, bestN := "", 1<<30
	for r := range ref {
		if n := len(diffLines(strings.Split(r, "\n"), lines)); n < bestN {
			best, bestN = r, n
		}
	}
	d := diffLines(strings.Split(best, "\n"), lines)
	class := "other"
	if len(d) > 0 {
		class = strings.SplitN(strings.TrimLeft(d[0], "+-~ "), "/", 2)[0]
	}
	x.Violate("C06/differential/final-state-differs/"+class, fmt.Sprintf("after the disturbance the run comes to rest at control position %s with a configuration no undisturbed run has there; difference to the closest one:\n%s", pos, strings.Join(d, "\n")))
}

// diffLines: lines only in a ("- "), only in b ("+ "); for a pair with the same "<resource>/<name>:" prefix the
// differing JSON paths are listed ("~ ").
func diffLines(a, b []string) []string {
	am, bm := map[string]string{}, map[string]string{}
	split := func(l string) (string, string) {
		i := strings.Index(l, ": ")
		if i < 0 {
			return l, ""
		}
		return l[:i], l[i+2:]
	}
	for _, l := range a {
		k, v := split(l)
		am[k] += v
	}
	for _, l := range b {
		k, v := split(l)
		bm[k] += v
	}
	var out []string
	for k, v := range am {
		if w, ok := bm[k]; !ok {
			out = append(out, "- "+k+" (only in the undisturbed run)")
		} else if w != v {
			out = append(out, "~ "+k+": undisturbed "+v+"  VS  disturbed "+w)
		}
	}
	for k := range bm {
		if _, ok := am[k]; !ok {
			out = append(out, "+ "+k+" (only after the disturbance)")
		}
	}
	sort.Strings(out)
	return out
}
