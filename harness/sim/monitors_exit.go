package sim

import (
	"encoding/json"
	"fmt"
	"sort"
	"strings"

	kruiseappsv1alpha1 "github.com/openkruise/kruise-api/apps/v1alpha1"
	rolloutsv1beta1 "github.com/openkruise/rollouts/api/v1beta1"
	"github.com/openkruise/rollouts/pkg/util"
	apps "k8s.io/api/apps/v1"
	corev1 "k8s.io/api/core/v1"
	netv1 "k8s.io/api/networking/v1"
	apiequality "k8s.io/apimachinery/pkg/api/equality"
	"k8s.io/apimachinery/pkg/apis/meta/v1/unstructured"
	"k8s.io/apimachinery/pkg/runtime"
	gatewayv1beta1 "sigs.k8s.io/gateway-api/apis/v1beta1"

	"verifharness/lib"
)

// Residue lists what a finished / removed rollout must not leave behind and what must be back to the
// user's configuration (C05), evaluated on the store. baseline holds the user's original objects.
type Baseline struct {
	StableSelector  map[string]string
	Ingress         *netv1.Ingress
	Route           *gatewayv1beta1.HTTPRoute
	WorkloadLabels  map[string]string
	WorkloadAnnos   map[string]string
	VirtualService  map[string]interface{} // spec of the user's VirtualService (custom provider)
	DestinationRule map[string]interface{} // spec of the user's DestinationRule (custom provider, second ref)
	WorkloadSpec    string                 // the user's workload spec without template and replicas (see workloadSpecProjection)
}

func CaptureBaseline(w *World, sc *Scenario) *Baseline {
	b := &Baseline{}
	svc := &corev1.Service{}
	if w.Get(svc, sc.ns(), AppName) {
		b.StableSelector = svc.Spec.Selector
	}
	ing := &netv1.Ingress{}
	if w.Get(ing, sc.ns(), AppName) {
		b.Ingress = ing
	}
	rt := &gatewayv1beta1.HTTPRoute{}
	if w.Get(rt, sc.ns(), AppName) {
		b.Route = rt
	}
	if v := ViewWorkload(w, sc); v != nil {
		b.WorkloadLabels, b.WorkloadAnnos = v.Labels, v.Annotations
	}
	if vs := GetVirtualService(w, sc.ns()); vs != nil {
		b.VirtualService, _, _ = unstructured.NestedMap(vs.Object, "spec")
	}
	for _, o := range w.Store.PeekAll("destinationrules") {
		if u, ok := o.(*unstructured.Unstructured); ok && u.GetName() == AppName {
			b.DestinationRule, _, _ = unstructured.NestedMap(u.Object, "spec")
		}
	}
	b.WorkloadSpec = workloadSpecProjection(getWorkload(w, sc))
	return b
}

var rolloutMarkers = []string{util.InRolloutProgressingAnnotation, util.BatchReleaseControlAnnotation, "rollouts.kruise.io/original-deployment-strategy",
	"rollouts.kruise.io/deployment-strategy", "rollouts.kruise.io/deployment-extra-status"}

// Residue returns the list of leftovers (empty = clean).
func Residue(w *World, sc *Scenario, base *Baseline) []string {
	var out []string
	ns := sc.ns()
	for _, o := range w.Store.PeekAll("batchreleases") {
		out = append(out, "BatchRelease "+accessor(o).GetName()+" still exists")
	}
	for _, o := range w.Store.PeekAll("services") {
		if accessor(o).GetName() == AppName+"-canary" {
			out = append(out, "canary Service still exists")
		}
	}
	for _, o := range w.Store.PeekAll("ingresses") {
		if accessor(o).GetName() == AppName+"-canary" {
			out = append(out, "canary Ingress still exists")
		}
	}
	for _, o := range w.Store.PeekAll("deployments") {
		if accessor(o).GetName() != AppName && accessor(o).GetNamespace() == ns {
			out = append(out, "canary Deployment "+accessor(o).GetName()+" still exists")
		}
	}
	if base != nil && base.StableSelector != nil {
		svc := &corev1.Service{}
		if w.Get(svc, ns, AppName) && !apiequality.Semantic.DeepEqual(svc.Spec.Selector, base.StableSelector) {
			out = append(out, fmt.Sprintf("stable Service selector is %v, the user's is %v", svc.Spec.Selector, base.StableSelector))
		}
	}
	if base != nil && base.Ingress != nil {
		ing := &netv1.Ingress{}
		if w.Get(ing, ns, AppName) && (!apiequality.Semantic.DeepEqual(ing.Spec, base.Ingress.Spec) || !apiequality.Semantic.DeepEqual(ing.Annotations, base.Ingress.Annotations)) {
			out = append(out, "stable Ingress differs from the user's")
		}
	}
	if base != nil && base.Route != nil {
		rt := &gatewayv1beta1.HTTPRoute{}
		if w.Get(rt, ns, AppName) && !routeRulesEquivalent(rt.Spec.Rules, base.Route.Spec.Rules) {
			out = append(out, "HTTPRoute rules differ from the user's")
		}
	}
	out = append(out, virtualServiceResidue(w, sc, base)...)
	for _, o := range w.Store.PeekAll("horizontalpodautoscalers") {
		if name := hpaTargetName(o); name != AppName {
			out = append(out, "HPA target is still "+name+" (the user's is "+AppName+")")
		}
	}
	if v := ViewWorkload(w, sc); v != nil {
		for _, m := range rolloutMarkers {
			if _, has := v.Annotations[m]; has {
				if base != nil {
					if _, had := base.WorkloadAnnos[m]; had {
						continue
					}
				}
				out = append(out, "workload still carries annotation "+m)
			}
		}
		switch sc.Kind {
		case "CloneSet":
			cs := &kruiseappsv1alpha1.CloneSet{}
			if w.Get(cs, ns, AppName) {
				if cs.Spec.UpdateStrategy.Paused {
					out = append(out, "workload is still paused")
				}
				if p := cs.Spec.UpdateStrategy.Partition; p != nil && ceilPartition(p, int(*cs.Spec.Replicas)) != 0 {
					out = append(out, "workload partition is still "+p.String())
				}
			}
		}
		if sc.Kind == "DaemonSet" {
			ds := &kruiseappsv1alpha1.DaemonSet{}
			if w.Get(ds, ns, AppName) && (dsPartition(ds) != 0 || dsPaused(ds)) {
				out = append(out, fmt.Sprintf("workload partition is still %d (paused=%v)", dsPartition(ds), dsPaused(ds)))
			}
		}
		if sc.Kind == "StatefulSet" {
			st := &apps.StatefulSet{}
			if w.Get(st, ns, AppName) && stsPartition(st) != 0 {
				out = append(out, fmt.Sprintf("workload partition is still %d", stsPartition(st)))
			}
		}
		if base != nil && base.WorkloadSpec != "" {
			if now := workloadSpecProjection(getWorkload(w, sc)); now != base.WorkloadSpec {
				out = append(out, "workload spec (pause / partition / strategy / minReadySeconds / progressDeadline ...) differs from the user's: "+strings.Join(lib.JSONDiffValues(json.RawMessage(base.WorkloadSpec), json.RawMessage(now)), " "))
			}
		}
		if v.Updated != v.Pods || v.Ready != v.Pods || v.Pods != v.Replicas {
			out = append(out, fmt.Sprintf("workload did not converge to the desired revision: %d/%d pods updated, %d ready", v.Updated, v.Replicas, v.Ready))
		}
	}
	sort.Strings(out)
	return out
}

// workloadSpecProjection is the workload's spec as JSON without the pod template and the replica count (the user may
// change both during a release); a partition that means "every pod may be updated" (0, "0%") and paused=false are
// the same as their absence.
func workloadSpecProjection(obj interface{}) string {
	if obj == nil {
		return ""
	}
	b, _ := json.Marshal(obj)
	var m map[string]interface{}
	if json.Unmarshal(b, &m) != nil {
		return ""
	}
	spec, _ := m["spec"].(map[string]interface{})
	if spec == nil {
		return ""
	}
	delete(spec, "template")
	delete(spec, "replicas")
	if p, ok := spec["paused"].(bool); ok && !p {
		delete(spec, "paused")
	}
	zero := func(v interface{}) bool {
		switch x := v.(type) {
		case float64:
			return x == 0
		case string:
			return x == "0%" || x == "0"
		case nil:
			return true
		}
		return false
	}
	if us, ok := spec["updateStrategy"].(map[string]interface{}); ok {
		if zero(us["partition"]) {
			delete(us, "partition")
		}
		if zero(us["maxSurge"]) { // Kruise defaults an absent maxSurge to 0
			delete(us, "maxSurge")
		}
		if p, ok := us["paused"].(bool); ok && !p {
			delete(us, "paused")
		}
		if ru, ok := us["rollingUpdate"].(map[string]interface{}); ok {
			if zero(ru["partition"]) {
				delete(ru, "partition")
			}
			if p, ok := ru["paused"].(bool); ok && !p {
				delete(ru, "paused")
			}
			if len(ru) == 0 {
				delete(us, "rollingUpdate")
			}
		}
	}
	out, _ := json.Marshal(spec)
	return string(out)
}

// virtualServiceResidue: the custom (Lua) provider must have restored the user's VirtualService and removed the
// annotation in which it keeps the original.
func virtualServiceResidue(w *World, sc *Scenario, base *Baseline) []string {
	if base == nil || base.VirtualService == nil {
		return nil
	}
	var out []string
	if vs := GetVirtualService(w, sc.ns()); vs == nil {
		out = append(out, "the user's VirtualService is gone")
	} else {
		spec, _, _ := unstructured.NestedMap(vs.Object, "spec")
		if lib.J(spec) != lib.J(base.VirtualService) {
			out = append(out, "VirtualService spec differs from the user's: "+lib.J(spec))
		}
		if _, has := vs.GetAnnotations()["rollouts.kruise.io/original-spec-configuration"]; has {
			out = append(out, "VirtualService still carries the saved original configuration annotation")
		}
	}
	if base.DestinationRule != nil {
		found := false
		for _, o := range w.Store.PeekAll("destinationrules") {
			if u, ok := o.(*unstructured.Unstructured); ok && u.GetName() == AppName {
				found = true
				spec, _, _ := unstructured.NestedMap(u.Object, "spec")
				if lib.J(spec) != lib.J(base.DestinationRule) {
					out = append(out, "VirtualService's companion DestinationRule spec differs from the user's: "+lib.J(spec))
				}
				if _, has := u.GetAnnotations()["rollouts.kruise.io/original-spec-configuration"]; has {
					out = append(out, "VirtualService's companion DestinationRule still carries the saved original configuration annotation")
				}
			}
		}
		if !found {
			out = append(out, "VirtualService's companion DestinationRule is gone")
		}
	}
	return out
}

// ExitMonitor (C05): every exit path leaves the cluster as the user configured it.
type ExitMonitor struct {
	BaseMonitor
	Base *Baseline
}

func (*ExitMonitor) ID() string { return "C05" }

func (m *ExitMonitor) OnWrite(x *Ctx, w *Write) {
	if w.Key.GVR.Resource == "batchreleases" && w.Verb == "create" {
		x.Mon["c05.batchReleaseCreated"] = "1"
	}
	// a BatchRelease has taken the workload over (only the finaliser of such a BatchRelease lifts the webhook's pause)
	if w.Actor == "B" && w.Key.GVR.Resource == workloadResource(x.Sc) && w.Key.Name == AppName && w.After != nil && controlledOf(w.After) {
		x.Mon["c05.takenOver"] = "1"
	}
}

// OnTransition remembers in which situation an exit (disable / delete) was requested: while the Rollout's status was
// reset, or while no BatchRelease controlled the workload.
func (m *ExitMonitor) OnTransition(x *Ctx, t *Transition) {
	if t.Actor != "user" || !(strings.HasSuffix(t.Label, ":disable") || strings.HasSuffix(t.Label, ":deleteRollout")) {
		return
	}
	if x.Mon["ctx.statusReset"] != "" || x.Mon["ctx.forgotRelease"] != "" {
		x.Mon["c05.exitAfterReset"] = "1"
	}
	br := &rolloutsv1beta1.BatchRelease{}
	v := ViewWorkload(x.W, x.Sc)
	if !x.W.Get(br, x.Sc.ns(), AppName) || br.DeletionTimestamp != nil || v == nil || !v.Controlled {
		x.Mon["c05.exitWithoutControllingBR"] = "1"
	}
}

func (m *ExitMonitor) OnState(x *Ctx, quiescent bool) {
	if !quiescent || x.Mon["req.release"] == "" {
		return
	}
	sc := x.Sc
	ro := getRollout(x.W, sc)
	reason := ""
	switch {
	case ro == nil:
		reason = "deleted"
	case ro.Status.Phase == rolloutsv1beta1.RolloutPhaseDisabled:
		reason = "disabled"
	case ro.Status.Phase == rolloutsv1beta1.RolloutPhaseHealthy && ro.DeletionTimestamp == nil:
		reason = "completed"
		if requested(x.Mon, "rollback") {
			reason = "rolled-back"
		}
	default:
		return // not ended (waiting for the user, or still terminating: C07 / C18 judge those)
	}
	if requested(x.Mon, "scale") {
		reason += "+scaled"
	}
	x.Count("C05 terminal states judged (" + reason + ")")
	x.ex.Terminals[reason]++
	res := Residue(x.W, sc, m.Base)
	if x.Mon["req.deleteVS"] != "" {
		// the user removed the VirtualService themselves: its absence is not a leftover of the rollout
		kept := res[:0]
		for _, r := range res {
			if r != "the user's VirtualService is gone" {
				kept = append(kept, r)
			}
		}
		res = kept
	}
	if len(res) > 0 {
		// The signature names the residue class, except in histories whose root cause is established: there the same
		// cause shows as many different leftovers, and the history class identifies the finding.
		sig := "C05/restore/" + strings.Split(reason, "+")[0]
		switch {
		case x.Mon["ctx.forgotRelease"] != "" || x.Mon["ctx.statusReset"] != "" || x.Mon["c05.exitAfterReset"] != "":
			sig += "/residue-after-the-rollout-status-was-reset-mid-release"
		case x.Mon["c05.takenOver"] == "" || x.Mon["c05.exitWithoutControllingBR"] != "":
			sig += "/residue-when-no-batchrelease-controls-the-workload"
		case x.Mon["ctx.templateChangedWhileFinalising"] != "":
			sig += "/residue-after-template-change-while-finalising"
		default:
			sig += "/" + residueClass(res)
		}
		x.Violate(sig, "rollout ended ("+reason+") but: "+strings.Join(res, "; "))
	}
}

func residueClass(res []string) string {
	first := res[0]
	for _, w := range []string{"BatchRelease", "canary Service", "canary Ingress", "canary Deployment", "stable Service selector", "stable Ingress", "VirtualService", "HPA", "workload spec", "annotation", "paused", "partition", "converge"} {
		if strings.Contains(first, w) {
			if w == "workload spec" {
				// which fields differ is part of the class: ".strategy.type: "Recreate" -> "RollingUpdate"" and a lost
				// minReadySeconds are different defects
				if i := strings.Index(first, "differs from the user's: "); i >= 0 {
					var paths []string
					for _, f := range strings.Split(first[i+len("differs from the user's: "):], " .") {
						f = strings.TrimPrefix(f, ".")
						if j := strings.Index(f, ":"); j > 0 {
							paths = append(paths, f[:j])
						}
					}
					if strings.Contains(first, `.strategy.type: "Recreate" -> "RollingUpdate"`) {
						return "workload-spec/strategy-Recreate-became-RollingUpdate"
					}
					return "workload-spec/" + strings.Join(paths, "+")
				}
			}
			return strings.ReplaceAll(w, " ", "-")
		}
	}
	return "other"
}

// FinalizerMonitor (C18): the controllers drop their own finalizer only when cleanup has completed.
type FinalizerMonitor struct {
	BaseMonitor
	Base *Baseline // the user's gateway objects (for the TrafficRouting custom resource's cleanup); may be nil
}

func (FinalizerMonitor) ID() string { return "C18" }

// hpaTargetName reads spec.scaleTargetRef.name of a stored HorizontalPodAutoscaler, whatever Go type the store
// keeps it in.
func hpaTargetName(o runtime.Object) string {
	m, err := runtime.DefaultUnstructuredConverter.ToUnstructured(o)
	if err != nil {
		return "?"
	}
	name, _, _ := unstructured.NestedString(m, "spec", "scaleTargetRef", "name")
	return name
}

func hasFinalizer(list []string, f string) bool {
	for _, x := range list {
		if x == f {
			return true
		}
	}
	return false
}

func (m FinalizerMonitor) OnWrite(x *Ctx, w *Write) {
	if !isController(w.Actor) || w.Before == nil {
		return
	}
	sc := x.Sc
	before := accessor(w.Before).GetFinalizers()
	var after []string
	if w.After != nil {
		after = accessor(w.After).GetFinalizers()
	}
	switch w.Key.GVR.Resource {
	case "rollouts":
		if hasFinalizer(before, util.KruiseRolloutFinalizer) && !hasFinalizer(after, util.KruiseRolloutFinalizer) {
			x.Count("C18 rollout finalizer removals judged")
			var res []string
			ts := ReadTraffic(x.W, sc)
			if ts.RoutesToCanary {
				res = append(res, "gateway still routes to the canary ("+ts.String()+")")
			}
			if ts.StablePinned != "" {
				res = append(res, "stable Service still pinned to "+ts.StablePinned)
			}
			// a BatchRelease owned by the Rollout is collected by the garbage collector once the Rollout is gone;
			// it is residue only if nothing guarantees that (no owner reference)
			for _, o := range x.W.Store.PeekAll("batchreleases") {
				owned := false
				for _, ref := range accessor(o).GetOwnerReferences() {
					if ref.UID == accessor(w.Before).GetUID() {
						owned = true
					}
				}
				if !owned {
					res = append(res, "BatchRelease "+accessor(o).GetName()+" still exists and is not owned by the Rollout")
				}
			}
			if v := ViewWorkload(x.W, sc); v != nil && (v.Controlled || v.InProgress) {
				res = append(res, "workload still marked as controlled / in progress")
			}
			if len(res) > 0 {
				sig := "C18/early/rollout-finalizer"
				if x.Mon["ctx.forgotRelease"] != "" || x.Mon["ctx.statusReset"] != "" {
					// the release had been forgotten before the deletion: the Rollout had cleared its sub-status
					// mid-release without cleaning up (workload vanished, or reset for a superseding / reverted release)
					sig += "/after-the-rollout-status-was-reset-mid-release"
				}
				x.Violate(sig, "Rollout finalizer removed while cleanup is incomplete: "+strings.Join(res, "; "))
			}
		}
	case "trafficroutings":
		if hasFinalizer(before, util.TrafficRoutingFinalizer) && !hasFinalizer(after, util.TrafficRoutingFinalizer) {
			x.Count("C18 trafficrouting finalizer removals judged")
			var res []string
			// what the TrafficRouting controller did to the user's gateway objects must have been undone; objects it
			// created carry an owner reference to the TrafficRouting and are collected by the garbage collector
			if m.Base != nil && m.Base.Route != nil {
				rt := &gatewayv1beta1.HTTPRoute{}
				if x.W.Get(rt, sc.ns(), AppName) && !routeRulesEquivalent(rt.Spec.Rules, m.Base.Route.Spec.Rules) {
					res = append(res, "the HTTPRoute still carries the canary routing (rules differ from the user's)")
				}
			}
			if m.Base != nil && m.Base.Ingress != nil {
				ing := &netv1.Ingress{}
				if x.W.Get(ing, sc.ns(), AppName) && (!apiequality.Semantic.DeepEqual(ing.Spec, m.Base.Ingress.Spec) || !apiequality.Semantic.DeepEqual(ing.Annotations, m.Base.Ingress.Annotations)) {
					res = append(res, "the stable Ingress differs from the user's")
				}
			}
			res = append(res, virtualServiceResidue(x.W, sc, m.Base)...)
			for _, o := range x.W.Store.PeekAll("ingresses") {
				if accessor(o).GetName() == AppName+"-canary" && len(accessor(o).GetOwnerReferences()) == 0 {
					res = append(res, "canary Ingress exists without an owner")
				}
			}
			if len(res) > 0 {
				x.Violate("C18/early/trafficrouting-finalizer", "TrafficRouting finalizer removed while cleanup is incomplete: "+strings.Join(res, "; "))
			}
		}
	case "batchreleases":
		const brFinalizer = "rollouts.kruise.io/batch-release-finalizer"
		if hasFinalizer(before, brFinalizer) && !hasFinalizer(after, brFinalizer) {
			x.Count("C18 batchrelease finalizer removals judged")
			if v := ViewWorkload(x.W, sc); v != nil && v.Controlled {
				x.Violate("C18/early/batchrelease-finalizer", "BatchRelease finalizer removed while the workload still carries the control-info annotation")
			}
			// a blue-green release disables the user's HorizontalPodAutoscaler; only the BatchRelease controller knows
			// how to give it back
			for _, o := range x.W.Store.PeekAll("horizontalpodautoscalers") {
				if name := hpaTargetName(o); name != AppName {
					sig := "C18/early/batchrelease-finalizer/hpa-still-disabled"
					if getWorkload(x.W, sc) == nil {
						sig += "/after-the-workload-was-deleted" // nothing left to scale, but the user's object stays modified
					}
					x.Violate(sig, "BatchRelease finalizer removed while the HorizontalPodAutoscaler still targets "+name+" (the user's target is "+AppName+")")
				}
			}
			// generated canary Deployments are only collectable once their own finalizer is gone
			for _, o := range x.W.Store.PeekAll("deployments") {
				a := accessor(o)
				if a.GetNamespace() == sc.ns() && a.GetLabels()[util.CanaryDeploymentLabel] != "" && hasFinalizer(a.GetFinalizers(), util.CanaryDeploymentFinalizer) {
					x.Violate("C18/early/batchrelease-finalizer/canary-deployment-keeps-finalizer", "BatchRelease finalizer removed while the generated canary Deployment "+a.GetName()+" still carries "+util.CanaryDeploymentFinalizer+" (it can never be collected)")
				}
			}
		}
	}
}

// OnState: "deletion is never blocked forever" - at a final state (every controller idle, time changes nothing
// any more) no Rollout, BatchRelease or TrafficRouting may still be waiting for a finalizer of these controllers.
func (m FinalizerMonitor) OnState(x *Ctx, quiescent bool) {
	if !quiescent {
		return
	}
	for _, res := range []string{"rollouts", "batchreleases", "trafficroutings"} {
		for _, o := range x.W.Store.PeekAll(res) {
			a := accessor(o)
			if a.GetDeletionTimestamp() == nil {
				continue
			}
			x.Count("C18 deleting objects at final states judged")
			var own []string
			for _, f := range a.GetFinalizers() {
				if !strings.Contains(f, "rollouts.kruise.io") {
					continue
				}
				// a Rollout's guard on a TrafficRouting it is still using does its job: the deletion waits until that
				// rollout has finished (the user may still approve it), it is not blocked for ever
				if strings.HasPrefix(f, "progressing.rollouts.kruise.io/") {
					if ro := getRollout(x.W, x.Sc); ro != nil && ro.Name == strings.TrimPrefix(f, "progressing.rollouts.kruise.io/") && ro.DeletionTimestamp == nil &&
						ro.Status.Phase == rolloutsv1beta1.RolloutPhaseProgressing {
						continue
					}
				}
				own = append(own, f)
			}
			if len(own) > 0 {
				sig := "C18/stuck/" + res + "-deletion-blocked"
				// history classes of two established root causes (§0.3): the Rollout forgot the release (status reset
				// mid-release), or nobody ever controlled the workload the webhook holds back
				if x.Mon["ctx.forgotRelease"] != "" || x.Mon["ctx.statusReset"] != "" {
					sig += "/after-the-rollout-status-was-reset-mid-release"
				} else if v := ViewWorkload(x.W, x.Sc); v != nil && !v.Controlled {
					br := &rolloutsv1beta1.BatchRelease{}
					if x.W.Get(br, x.Sc.ns(), AppName) && br.Status.Phase == rolloutsv1beta1.RolloutPhaseFinalizing && br.Status.CanaryStatus.CurrentBatchState == "" {
						sig += "/batchrelease-never-controlled-the-workload"
					}
				}
				x.Violate(sig, fmt.Sprintf("every controller is idle and nothing is pending, but %s %s/%s is still being deleted and keeps the finalizer(s) %v: its deletion is blocked for ever", res, a.GetNamespace(), a.GetName(), own))
			}
		}
	}
}

// routeRulesEquivalent compares HTTPRoute rules ignoring the weight of a rule's SOLE backend (semantically
// irrelevant there; the provider normalises it to 1).
func routeRulesEquivalent(a, b []gatewayv1beta1.HTTPRouteRule) bool {
	norm := func(in []gatewayv1beta1.HTTPRouteRule) []gatewayv1beta1.HTTPRouteRule {
		out := make([]gatewayv1beta1.HTTPRouteRule, len(in))
		for i := range in {
			out[i] = *in[i].DeepCopy()
			if len(out[i].BackendRefs) == 1 {
				out[i].BackendRefs[0].Weight = nil
			}
		}
		return out
	}
	return apiequality.Semantic.DeepEqual(norm(a), norm(b))
}
