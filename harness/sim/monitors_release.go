package sim

import (
	"fmt"
	"strings"

	rolloutsv1beta1 "github.com/openkruise/rollouts/api/v1beta1"
	"k8s.io/apimachinery/pkg/util/intstr"
)

// ---------------------------------------------------------------------------------------------
// helpers
// ---------------------------------------------------------------------------------------------

func asRollout(o interface{}) *rolloutsv1beta1.Rollout {
	r, _ := o.(*rolloutsv1beta1.Rollout)
	return r
}

func asBR(o interface{}) *rolloutsv1beta1.BatchRelease {
	r, _ := o.(*rolloutsv1beta1.BatchRelease)
	return r
}

func scaled(v *intstr.IntOrString, total int) int {
	if v == nil {
		return 0
	}
	n, _ := intstr.GetScaledValueFromIntOrPercent(v, total, true)
	if n > total {
		n = total
	}
	if n < 0 {
		n = 0
	}
	return n
}

// sticky user requests recorded by the actions (rollback, release3, scale, editPlan, jump, exit)
func requested(m MonState, names ...string) bool {
	for _, n := range names {
		if m["req."+n] != "" {
			return true
		}
	}
	return false
}

var stateOrder = map[string]int{
	string(rolloutsv1beta1.CanaryStepStateInit): 0, string(rolloutsv1beta1.CanaryStepStateUpgrade): 1,
	string(rolloutsv1beta1.CanaryStepStateTrafficRouting): 2, string(rolloutsv1beta1.CanaryStepStateMetricsAnalysis): 3,
	string(rolloutsv1beta1.CanaryStepStatePaused): 4, string(rolloutsv1beta1.CanaryStepStateReady): 5,
	string(rolloutsv1beta1.CanaryStepStateCompleted): 6,
}

// ---------------------------------------------------------------------------------------------
// C02: steps are gated
// ---------------------------------------------------------------------------------------------

// StepMonitor (C02.step, C02.paused) judges every persisted change of the Rollout's step cursor.
type StepMonitor struct{ BaseMonitor }

func (StepMonitor) ID() string { return "C02" }

func (StepMonitor) OnWrite(x *Ctx, w *Write) {
	// "no forward progress at all while the rollout is marked paused", on every raise of batchPartition: a reconcile
	// that started with spec.strategy.paused=true must not authorise more pods (a higher batchPartition, or nil =
	// promote the rest)
	if w.Key.GVR.Resource == "batchreleases" && w.Actor == "R" && w.Verb == "update" && !w.Status && w.Before != nil && w.After != nil &&
		x.Pre != nil && x.Pre.Rollout != nil && x.Pre.Rollout.Spec.Strategy.Paused && !requested(x.Mon, "rollback", "release3", "exit") {
		b, a := asBR(w.Before), asBR(w.After)
		if b != nil && a != nil && b.Spec.ReleasePlan.BatchPartition != nil && a.DeletionTimestamp == nil &&
			(a.Spec.ReleasePlan.BatchPartition == nil || *a.Spec.ReleasePlan.BatchPartition > *b.Spec.ReleasePlan.BatchPartition) {
			x.Count("C02 batchPartition raises in a paused reconcile judged")
			sig := "C02/paused/batchPartition-raised"
			if progressingReason(x.Pre.Rollout) == "Finalising" {
				sig += "/after-finalising-began"
			}
			x.Violate(sig, fmt.Sprintf("rollout is paused (spec.strategy.paused=true, progressing reason %s) but the controller raised batchPartition %s -> %s",
				progressingReason(x.Pre.Rollout), fmtInt32(b.Spec.ReleasePlan.BatchPartition), fmtInt32(a.Spec.ReleasePlan.BatchPartition)))
		}
		return
	}
	if w.Key.GVR.Resource != "rollouts" || w.Verb != "update" {
		return
	}
	before, after := asRollout(w.Before), asRollout(w.After)
	if before == nil || after == nil {
		return
	}
	// the hand-over from the last step to the promotion of the remaining pods is forward progress too: a reconcile
	// that started paused must not switch the release from InRolling to Finalising
	if w.Actor == "R" && x.Pre != nil && x.Pre.Rollout != nil && x.Pre.Rollout.Spec.Strategy.Paused && !requested(x.Mon, "rollback", "release3", "exit") &&
		progressingReason(before) == "InRolling" && progressingReason(after) == "Finalising" {
		x.Violate("C02/paused/finalising-began", "rollout is paused (spec.strategy.paused=true) but the controller handed the release over to finalising (promotion of the remaining pods)")
	}
	bi, bs, _, bok := StepCursor(before)
	ai, as, _, aok := StepCursor(after)
	if !bok || !aok || (bi == ai && bs == as) {
		return
	}
	if w.Actor == "user" {
		return // approvals / jumps are user requests, judged when the controller consumes them
	}
	if w.Actor != "R" {
		return
	}
	sc := x.Sc
	x.Count("C02 cursor changes judged")
	steps := after.Spec.Strategy.GetSteps()
	special := requested(x.Mon, "jump", "editPlan", "rollback", "release3")
	// spec.strategy.paused: no forward progress in a reconcile that started paused
	if x.Pre != nil && x.Pre.Rollout != nil && x.Pre.Rollout.Spec.Strategy.Paused && !requested(x.Mon, "rollback", "release3") &&
		progressingReason(before) != "Cancelling" && progressingReason(after) != "Cancelling" {
		fwd := ai > bi || (ai == bi && stateOrder[as] > stateOrder[bs])
		if fwd && as != "" && bs != "" {
			x.Violate("C02/paused/cursor-advanced", fmt.Sprintf("rollout is paused (spec.strategy.paused=true) but the controller advanced the step cursor (%d,%s) -> (%d,%s)", bi, bs, ai, as))
		}
	}
	// a release that was restarted / finished rewrites the whole status: cursor resets are judged by C10
	if before.Status.CanaryStatus != nil && after.Status.CanaryStatus != nil && before.Status.CanaryStatus.CanaryRevision != after.Status.CanaryStatus.CanaryRevision {
		return
	}
	if before.Status.BlueGreenStatus != nil && after.Status.BlueGreenStatus != nil && before.Status.BlueGreenStatus.UpdatedRevision != after.Status.BlueGreenStatus.UpdatedRevision {
		return
	}
	if bs == "" || as == "" {
		return
	}
	// "step k's traffic rule was applied": leaving the routing part of a step (forward, by the controller)
	// requires the gateway to carry the step's share, unless the step is a partition-style step that covers
	// every replica (no stable pod remains to share traffic with; the code un-pins the stable Service instead)
	if ai == bi && sc.Traffic != "" && stateOrder[bs] <= stateOrder[string(rolloutsv1beta1.CanaryStepStateTrafficRouting)] &&
		stateOrder[as] >= stateOrder[string(rolloutsv1beta1.CanaryStepStateMetricsAnalysis)] && int(ai) >= 1 && int(ai) <= len(steps) {
		step := steps[ai-1]
		if want, has := stepTraffic(step); has && len(step.Matches) == 0 {
			v := ViewWorkload(x.W, sc)
			fullPartition := v != nil && rolloutsv1beta1.IsRealPartition(after) && scaled(step.Replicas, v.Replicas) >= v.Replicas
			if !fullPartition {
				x.Count("C02 routed gates judged")
				if ts := ReadTraffic(x.W, sc); ts.CanaryShare != want {
					x.Violate("C02/step/traffic-not-applied", fmt.Sprintf("step %d went %s -> %s but the gateway sends %d%% to the canary, the step configures %d%%", ai, bs, as, ts.CanaryShare, want))
				}
			}
		}
	}
	switch {
	case ai == bi && stateOrder[bs] <= stateOrder[string(rolloutsv1beta1.CanaryStepStateUpgrade)] && stateOrder[as] >= stateOrder[string(rolloutsv1beta1.CanaryStepStateTrafficRouting)] &&
		stateOrder[as] < stateOrder[string(rolloutsv1beta1.CanaryStepStateReady)]:
		// (StepInit falls through into StepUpgrade inside one reconcile, so Init -> TrafficRouting is the same gate)
		// step k's pods must have been upgraded and reported ready
		br := &rolloutsv1beta1.BatchRelease{}
		if !x.W.Get(br, sc.ns(), AppName) {
			x.Violate("C02/step/upgrade-done-without-batchrelease", fmt.Sprintf("step %d left StepUpgrade but no BatchRelease exists", ai))
			return
		}
		bp := br.Spec.ReleasePlan.BatchPartition
		st := br.Status.CanaryStatus
		var why []string
		if bp == nil || *bp+1 != ai {
			why = append(why, fmt.Sprintf("batchPartition=%v does not authorise step %d", fmtInt32(bp), ai))
		}
		if br.Generation != br.Status.ObservedGeneration {
			why = append(why, fmt.Sprintf("BatchRelease generation %d not observed (%d)", br.Generation, br.Status.ObservedGeneration))
		}
		if st.CurrentBatchState != rolloutsv1beta1.ReadyBatchState {
			why = append(why, "batchState="+string(st.CurrentBatchState)+" is not Ready")
		}
		if st.CurrentBatch+1 < ai {
			why = append(why, fmt.Sprintf("currentBatch=%d is behind step %d", st.CurrentBatch, ai))
		}
		if len(why) > 0 {
			x.Violate("C02/step/upgrade-done-but-batch-not-ready", fmt.Sprintf("step %d went %s -> %s although %s", ai, bs, as, strings.Join(why, "; ")))
		}
	case ai == bi && bs == string(rolloutsv1beta1.CanaryStepStatePaused) && as == string(rolloutsv1beta1.CanaryStepStateReady):
		// written by the controller: only if the duration elapsed or this is a last step covering 100%
		if int(ai) < 1 || int(ai) > len(steps) {
			return
		}
		step := steps[ai-1]
		// "a last canary step that already covers 100% needs no approval": judged on what the step covers (every
		// replica of the workload), not on how it is spelt
		// (only of the canary strategy: a blue-green release keeps both versions running until its last step is
		// approved, whatever that step covers)
		if int(ai) == len(steps) && step.Replicas != nil && after.Spec.Strategy.BlueGreen == nil {
			if step.Replicas.StrVal == "100%" {
				return
			}
			if v := ViewWorkload(x.W, x.Sc); v != nil && v.Replicas > 0 && scaled(step.Replicas, v.Replicas) >= v.Replicas {
				return
			}
		}
		// a status write that records a new plan hash is the plan-change handler recomputing the cursor after a plan
		// edit (it may mark the step Ready so that the next reconcile re-enters the step it computed): not a decision
		// of the pause gate (the same excuse as in C03's routed-report rule)
		if sb, sa := before.Status.GetSubStatus(), after.Status.GetSubStatus(); sb != nil && sa != nil && sb.RolloutHash != sa.RolloutHash && requested(x.Mon, "editPlan") {
			x.Count("C02 cursor recomputations after a plan change (not a pause-gate decision)")
			return
		}
		if step.Pause.Duration == nil {
			x.Violate("C02/step/manual-pause-skipped", fmt.Sprintf("step %d requires manual approval but the controller moved StepPaused -> StepReady by itself", ai))
			return
		}
		var lut int64
		if before.Status.CanaryStatus != nil && before.Status.CanaryStatus.LastUpdateTime != nil {
			lut = before.Status.CanaryStatus.LastUpdateTime.Unix()
		} else if before.Status.BlueGreenStatus != nil && before.Status.BlueGreenStatus.LastUpdateTime != nil {
			lut = before.Status.BlueGreenStatus.LastUpdateTime.Unix()
		}
		if x.W.Now()-lut < int64(*step.Pause.Duration) {
			x.Violate("C02/step/pause-duration-not-elapsed", fmt.Sprintf("step %d pause of %ds: StepPaused -> StepReady after only %ds", ai, *step.Pause.Duration, x.W.Now()-lut))
		}
	case ai == bi+1 && as == string(rolloutsv1beta1.CanaryStepStateInit):
		if bs != string(rolloutsv1beta1.CanaryStepStateReady) && !special {
			x.Violate("C02/step/next-step-without-ready", fmt.Sprintf("step index advanced %d -> %d from sub-state %s (not StepReady) with no user request pending", bi, ai, bs))
		}
	case ai == bi && as == string(rolloutsv1beta1.CanaryStepStateCompleted):
		if bs != string(rolloutsv1beta1.CanaryStepStateReady) && !special {
			x.Violate("C02/step/completed-without-ready", fmt.Sprintf("release completed from sub-state %s of step %d (not StepReady)", bs, ai))
		}
	case ai != bi:
		// a jump or a plan edit may move the cursor anywhere; a rollback / new revision justifies a restart at
		// step one only
		justified := requested(x.Mon, "jump", "editPlan") || (requested(x.Mon, "rollback", "release3") && ai == 1)
		if !justified {
			x.Violate("C02/step/index-changed-without-request", fmt.Sprintf("step cursor jumped (%d,%s) -> (%d,%s) with no jump / plan edit / rollback / new revision requested", bi, bs, ai, as))
		}
		// a jump / plan edit may land beyond the upgrade part of the target step only if that step's pods are there:
		// "step k's pods were upgraded and reported ready" holds for a step that is entered sideways as well
		if justified && requested(x.Mon, "jump", "editPlan") && !requested(x.Mon, "rollback", "release3") && int(ai) >= 1 && int(ai) <= len(steps) &&
			stateOrder[as] >= stateOrder[string(rolloutsv1beta1.CanaryStepStateTrafficRouting)] && as != string(rolloutsv1beta1.CanaryStepStateCompleted) {
			if v := ViewWorkload(x.W, sc); v != nil && steps[ai-1].Replicas != nil {
				x.Count("C02 sideways entries beyond the upgrade gate judged")
				planned := scaled(steps[ai-1].Replicas, v.Replicas)
				have := v.UpdatedReady
				if sc.Style == "canary" {
					have = v.CanaryPodsReady
				}
				if have < planned {
					x.Violate("C02/step/entered-beyond-upgrade-without-pods", fmt.Sprintf("the cursor moved (%d,%s) -> (%d,%s) on a user request, skipping the upgrade of step %d, but only %d ready pods run the new revision and the step calls for %d", bi, bs, ai, as, ai, have, planned))
				}
			}
		}
	case ai == bi && stateOrder[bs] < stateOrder[string(rolloutsv1beta1.CanaryStepStatePaused)] && stateOrder[as] >= stateOrder[string(rolloutsv1beta1.CanaryStepStateReady)] && !special:
		// the pause gate (StepPaused) cannot be jumped over
		x.Violate("C02/step/pause-gate-skipped", fmt.Sprintf("step %d went %s -> %s without passing StepPaused", ai, bs, as))
	}
}

func fmtInt32(p *int32) string {
	if p == nil {
		return "<nil>"
	}
	return fmt.Sprint(*p)
}

// ---------------------------------------------------------------------------------------------
// C01: exposure never exceeds the current step
// ---------------------------------------------------------------------------------------------

type ExposureMonitor struct{ BaseMonitor }

func (ExposureMonitor) ID() string { return "C01" }

func (ExposureMonitor) OnWrite(x *Ctx, w *Write) {
	sc := x.Sc
	// (a) authorisation: what the Rollout writes into the BatchRelease
	if w.Key.GVR.Resource == "batchreleases" && w.Actor == "R" && w.After != nil && !w.Status {
		br := asBR(w.After)
		ro := getRollout(x.W, sc)
		if br != nil && ro != nil && br.Spec.ReleasePlan.BatchPartition != nil && br.DeletionTimestamp == nil {
			idx, _, _, ok := StepCursor(ro)
			// the Rollout persists its status after this write; the cursor it will persist is the one in the
			// store or (after a jump decided in an earlier reconcile) already there
			if ok {
				x.Count("C01 batchPartition writes judged")
				if *br.Spec.ReleasePlan.BatchPartition+1 > idx {
					x.Violate("C01/authorise/batchPartition-ahead-of-step", fmt.Sprintf("Rollout wrote batchPartition=%d while its current step is %d", *br.Spec.ReleasePlan.BatchPartition, idx))
				}
				steps := ro.Spec.Strategy.GetSteps()
				for i, b := range br.Spec.ReleasePlan.Batches {
					if i < len(steps) && steps[i].Replicas != nil && b.CanaryReplicas != *steps[i].Replicas {
						x.Violate("C01/authorise/batch-differs-from-step", fmt.Sprintf("Rollout wrote batch %d = %s into the BatchRelease, step %d of its plan says %s", i, b.CanaryReplicas.String(), i+1, steps[i].Replicas.String()))
					}
				}
			}
		}
		return
	}
	// (b) exposure: every change of the workload's update knob by the BatchRelease controller
	if w.Actor != "B" || w.Verb != "update" || w.Status || w.Key.GVR.Resource != workloadResource(sc) {
		return
	}
	if sc.Style == "canary" {
		// the knob of the canary style is the replicas of the extra canary Deployment
		if w.Key.Name == AppName || exposureOf(sc, w.After) < 0 {
			return
		}
	} else if w.Key.Name != AppName {
		return
	}
	ro := getRollout(x.W, sc)
	if ro == nil || ro.Status.Phase != rolloutsv1beta1.RolloutPhaseProgressing || progressingReason(ro) != "InRolling" || ro.DeletionTimestamp != nil || ro.Spec.Disabled {
		return
	}
	if requested(x.Mon, "rollback", "release3", "exit") {
		return
	}
	br := &rolloutsv1beta1.BatchRelease{}
	if !x.W.Get(br, sc.ns(), AppName) || br.DeletionTimestamp != nil {
		return
	}
	v := ViewWorkload(x.W, sc)
	if v == nil {
		return
	}
	prev := exposureOf(sc, w.Before)
	if prev == v.Exposure {
		return
	}
	x.Count("C01 knob writes judged")
	// The BatchRelease controller executes the plan and the authorisation the Rollout gave it in the
	// BatchRelease spec (part (a) judges those against the Rollout's current step); a plan edit or a backward
	// jump that has not reached the BatchRelease yet cannot retract exposure that was already granted.
	plan := br.Spec.ReleasePlan
	if len(plan.Batches) == 0 {
		return
	}
	authorised := int(br.Status.CanaryStatus.CurrentBatch)
	if plan.BatchPartition != nil && int(*plan.BatchPartition) < authorised {
		authorised = int(*plan.BatchPartition)
	}
	if authorised >= len(plan.Batches) {
		authorised = len(plan.Batches) - 1
	}
	if authorised < 0 {
		authorised = 0
	}
	cr := plan.Batches[authorised].CanaryReplicas
	planned := scaled(&cr, v.Replicas)
	if plan.BatchPartition == nil {
		planned = v.Replicas // promotion of the remaining pods after the last step
	}
	if nn := br.Status.CanaryStatus.NoNeedUpdateReplicas; nn != nil && *nn > 0 {
		return // rollback-in-batch arithmetic is judged by the E3 part
	}
	// percent-rounding slack of at most 1% of the workload size
	if float64(v.Exposure-planned) > 0.01*float64(v.Replicas) && v.Exposure > prev {
		x.Violate("C01/exposure/exceeds-authorised-step/"+sc.Kind+"-"+sc.Style, fmt.Sprintf("BatchRelease controller set %s on a %d-replica workload: %d new-revision pods allowed, but the authorised batch %d (%s, batchPartition=%s) plans %d",
			v.KnobText, v.Replicas, v.Exposure, authorised, cr.String(), fmtInt32(plan.BatchPartition), planned))
	}
	// A partition is re-based when the workload is scaled (fewer replicas, fewer pods to update); the replica
	// count of the extra canary Deployment is never lowered while the release goes on, scaled or not.
	if v.Exposure < prev && (sc.Style == "canary" || !requested(x.Mon, "scale")) && x.Pre != nil && x.Pre.BatchRelease != nil {
		x.Violate("C01/monotone/knob-moved-back/"+sc.Kind+"-"+sc.Style, fmt.Sprintf("BatchRelease controller moved the update knob back toward the old revision while the release moves forward: exposure %d -> %d (%s)", prev, v.Exposure, v.KnobText))
	}
}

func workloadResource(sc *Scenario) string {
	switch sc.Kind {
	case "CloneSet":
		return "clonesets"
	case "Deployment":
		return "deployments"
	case "StatefulSet", "AdvancedStatefulSet":
		return "statefulsets"
	case "DaemonSet":
		return "daemonsets"
	}
	return ""
}

// ---------------------------------------------------------------------------------------------
// C11: BatchRelease status means what it says
// ---------------------------------------------------------------------------------------------

type BatchStatusMonitor struct{ BaseMonitor }

func (BatchStatusMonitor) ID() string { return "C11" }

// readyHolds is the three-line specification of "batch is ready" evaluated on the truth (pods in the store).
func readyHolds(br *rolloutsv1beta1.BatchRelease, v *WorkloadView) (bool, string) {
	cb := int(br.Status.CanaryStatus.CurrentBatch)
	if cb < 0 || cb >= len(br.Spec.ReleasePlan.Batches) {
		return true, ""
	}
	cr := br.Spec.ReleasePlan.Batches[cb].CanaryReplicas
	planned := scaled(&cr, v.Replicas)
	if br.Status.CanaryStatus.NoNeedUpdateReplicas != nil && *br.Status.CanaryStatus.NoNeedUpdateReplicas > 0 {
		return true, "" // rollback-in-batch arithmetic is judged by the E3 part
	}
	if v.CanaryPods > 0 || br.Spec.ReleasePlan.RollingStyle == rolloutsv1beta1.CanaryRollingStyle {
		// canary style: the batch's pods are the pods of the extra canary Deployment
		v = &WorkloadView{Replicas: v.Replicas, Updated: v.CanaryPods, UpdatedReady: v.CanaryPodsReady}
	}
	tol := 0
	if ft := br.Spec.ReleasePlan.FailureThreshold; ft != nil {
		tol, _ = intstr.GetScaledValueFromIntOrPercent(ft, v.Updated, true)
	}
	switch {
	case v.Updated < planned:
		return false, fmt.Sprintf("only %d pods are on the new revision, batch %d calls for %d", v.Updated, cb, planned)
	case v.UpdatedReady+tol < planned:
		return false, fmt.Sprintf("%d updated pods are ready (+%d tolerated), batch %d calls for %d", v.UpdatedReady, tol, cb, planned)
	case planned > 0 && v.UpdatedReady == 0:
		return false, "no updated pod is ready"
	}
	return true, ""
}

func (BatchStatusMonitor) OnWrite(x *Ctx, w *Write) {
	if w.Key.GVR.Resource != "batchreleases" || w.After == nil || w.Actor != "B" {
		return
	}
	after, before := asBR(w.After), asBR(w.Before)
	if after == nil {
		return
	}
	sc := x.Sc
	st := after.Status.CanaryStatus
	if bp := after.Spec.ReleasePlan.BatchPartition; bp != nil && after.Status.Phase == rolloutsv1beta1.RolloutPhaseProgressing && st.CurrentBatch > *bp {
		x.Violate("C11/partition/currentBatch-beyond-batchPartition", fmt.Sprintf("BatchRelease works on batch %d but batchPartition is %d", st.CurrentBatch, *bp))
	}
	v := ViewWorkload(x.W, sc)
	if v == nil {
		return
	}
	becameReady := st.CurrentBatchState == rolloutsv1beta1.ReadyBatchState && (before == nil || before.Status.CanaryStatus.CurrentBatchState != rolloutsv1beta1.ReadyBatchState ||
		before.Status.CanaryStatus.CurrentBatch != st.CurrentBatch)
	if becameReady && after.Status.Phase == rolloutsv1beta1.RolloutPhaseProgressing {
		x.Count("C11 Ready reports judged")
		if ok, why := readyHolds(after, v); !ok {
			x.Violate("C11/ready/reported-ready-but-not/"+sc.Kind+"-"+sc.Style, "BatchRelease reported batch "+fmt.Sprint(st.CurrentBatch)+" Ready although "+why)
		}
	}
	// "if the plan changes, the state falls back rather than staying Ready": the status write that acknowledges a new
	// plan (observedReleasePlanHash changes) must not carry Ready for a batch the workload does not satisfy under
	// that plan
	if before != nil && before.Status.ObservedReleasePlanHash != "" && before.Status.ObservedReleasePlanHash != after.Status.ObservedReleasePlanHash &&
		st.CurrentBatchState == rolloutsv1beta1.ReadyBatchState && !becameReady && after.Status.Phase == rolloutsv1beta1.RolloutPhaseProgressing {
		x.Count("C11 plan acknowledgements that keep Ready judged")
		if ok, why := readyHolds(after, v); !ok {
			x.Violate("C11/fallback/plan-changed-still-ready/"+sc.Kind+"-"+sc.Style, "BatchRelease acknowledged a changed plan and kept batch "+fmt.Sprint(st.CurrentBatch)+" Ready although "+why)
		}
	}
	if after.Status.Phase == rolloutsv1beta1.RolloutPhaseCompleted && (before == nil || before.Status.Phase != rolloutsv1beta1.RolloutPhaseCompleted) {
		x.Count("C11 Completed reports judged")
		if v.Controlled {
			x.Violate("C11/completed/still-controlled/"+sc.Kind+"-"+sc.Style, "BatchRelease reported Completed while the workload still carries the control-info annotation")
		}
		if after.Spec.ReleasePlan.FinalizingPolicy == rolloutsv1beta1.WaitResumeFinalizingPolicyType && after.Spec.ReleasePlan.BatchPartition == nil &&
			(v.Updated < v.Replicas || v.UpdatedReady < v.Replicas) && after.DeletionTimestamp == nil {
			// three different shortfalls, three signatures
			class := "not-all-updated"
			if v.Updated >= v.Replicas {
				class = "all-updated-but-not-all-ready"
				if v.UpdatedReady+v.MaxUnavailable >= v.Replicas {
					class = "all-updated-unready-within-workload-maxUnavailable"
				}
			}
			// the partition style implements no wait (its last batch being Ready already means every pod is updated and
			// ready; the property's mechanism names the blue-green and the canary-style finalisers): not judged there
			if sc.Style == "partition" {
				x.Count("C11 Completed reports of the partition style (no wait implemented, not judged)")
				return
			}
			// a Finalize attempt that found the workload already restored by an earlier attempt is a retry
			// (only the blue-green finaliser skips its patch on a retry; the canary-style one patches every time)
			if sc.Style == "bluegreen" && sc.Kind == "Deployment" && x.Pre != nil && x.Pre.Workload != nil && !controlledOf(x.Pre.Workload) {
				class += "/on-finalize-retry"
			}
			x.Violate("C11/completed/wait-resume-not-waited/"+sc.Kind+"-"+sc.Style+"/"+class, fmt.Sprintf("BatchRelease (policy WaitResume) reported Completed with %d/%d pods updated and %d ready", v.Updated, v.Replicas, v.UpdatedReady))
		}
	}
}

// OnState: at a settled state (every controller has looked and does nothing more) a batch must not stay Ready
// while the workload no longer satisfies it.
func (BatchStatusMonitor) OnState(x *Ctx, quiescent bool) {
	if !quiescent {
		return
	}
	sc := x.Sc
	br := &rolloutsv1beta1.BatchRelease{}
	if !x.W.Get(br, sc.ns(), AppName) || br.DeletionTimestamp != nil || br.Status.Phase != rolloutsv1beta1.RolloutPhaseProgressing ||
		br.Status.CanaryStatus.CurrentBatchState != rolloutsv1beta1.ReadyBatchState {
		return
	}
	v := ViewWorkload(x.W, sc)
	if v == nil || v.Generation != v.ObservedGeneration {
		return
	}
	x.Count("C11 settled Ready states judged")
	if ok, why := readyHolds(br, v); !ok {
		x.Violate("C11/fallback/stays-ready/"+sc.Kind+"-"+sc.Style, "every controller is idle, BatchRelease still reports batch "+fmt.Sprint(br.Status.CanaryStatus.CurrentBatch)+" Ready although "+why)
	}
}
