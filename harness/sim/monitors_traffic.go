package sim

import (
	"fmt"
	apps "k8s.io/api/apps/v1"
	corev1 "k8s.io/api/core/v1"
	"strings"

	kruiseappsv1alpha1 "github.com/openkruise/kruise-api/apps/v1alpha1"
	rolloutsv1beta1 "github.com/openkruise/rollouts/api/v1beta1"
	"github.com/openkruise/rollouts/pkg/util"
	"k8s.io/apimachinery/pkg/runtime"
	"k8s.io/apimachinery/pkg/util/intstr"
)

func isController(actor string) bool {
	return actor == "R" || actor == "B" || actor == "T" || actor == "D"
}

func isNetworkWrite(w *Write) bool {
	switch w.Key.GVR.Resource {
	case "services", "ingresses", "httproutes", "virtualservices", "destinationrules":
		return true
	}
	return false
}

func stepTraffic(step rolloutsv1beta1.CanaryStep) (int, bool) {
	if step.Traffic == nil {
		return 0, false
	}
	is := intstr.FromString(*step.Traffic)
	v, _ := intstr.GetScaledValueFromIntOrPercent(&is, 100, true)
	return v, true
}

// ---------------------------------------------------------------------------------------------
// C03: traffic follows pods
// ---------------------------------------------------------------------------------------------

type TrafficOrderMonitor struct{ BaseMonitor }

func (TrafficOrderMonitor) ID() string { return "C03" }

func (TrafficOrderMonitor) OnWrite(x *Ctx, w *Write) {
	sc := x.Sc
	if sc.Traffic == "" {
		return
	}
	// remember the highest batch the BatchRelease has REPORTED ready in this release (the property asks for
	// "have been reported ready"; a later transient fall-back of the BatchRelease, e.g. after an API error,
	// does not un-report it)
	if w.Key.GVR.Resource == "batchreleases" {
		switch {
		case w.Verb == "create" || w.Verb == "delete":
			delete(x.Mon, "c03.readyBatch")
		case w.After != nil:
			if br := asBR(w.After); br != nil && br.Status.CanaryStatus.CurrentBatchState == rolloutsv1beta1.ReadyBatchState &&
				br.Generation == br.Status.ObservedGeneration {
				if cur, ok := x.Mon["c03.readyBatch"]; !ok || atoi(cur) < int(br.Status.CanaryStatus.CurrentBatch) {
					x.Mon["c03.readyBatch"] = fmt.Sprint(br.Status.CanaryStatus.CurrentBatch)
				}
			}
		}
	}
	prevShare := x.Mon["c03.share"]
	prevMatches := x.Mon["c03.matches"]
	ts := ReadTraffic(x.W, sc)
	x.Mon["c03.share"] = fmt.Sprint(ts.CanaryShare)
	x.Mon["c03.matches"] = strings.Join(ts.CanaryMatches, ",")
	ro := getRollout(x.W, sc)
	// (iii) the stable Service is pinned before the first step's pods may be created
	if w.Actor == "B" && w.Verb == "update" && !w.Status && w.Key.GVR.Resource == workloadResource(sc) && w.Key.Name == AppName && ro != nil {
		steps := ro.Spec.Strategy.GetSteps()
		idx, _, _, ok := StepCursor(ro)
		if ok && idx == 1 && len(steps) > 0 && (steps[0].Traffic != nil || len(steps[0].Matches) > 0) && !requested(x.Mon, "rollback", "release3", "exit", "jump", "editPlan") {
			if exposureOf(sc, w.After) > exposureOf(sc, w.Before) {
				x.Count("C03 first-step exposure raises judged")
				v := ViewWorkload(x.W, sc)
				stableRev := ""
				if ro.Status.CanaryStatus != nil {
					stableRev = ro.Status.CanaryStatus.StableRevision
				} else if ro.Status.BlueGreenStatus != nil {
					stableRev = ro.Status.BlueGreenStatus.StableRevision
				}
				if v != nil && ts.StableSvcExists && ts.StablePinned != shortHash(stableRev) {
					x.Violate("C03/pin/first-step-pods-before-stable-pinned", fmt.Sprintf("step 1 configures traffic but the workload was allowed to create new-revision pods (%s) while the stable Service selector is %q, not pinned to the stable revision %q", v.KnobText, ts.StablePinned, stableRev))
				}
			}
		}
	}
	if !isController(w.Actor) || !isNetworkWrite(w) || ro == nil {
		return
	}
	raised := false
	if ps := atoi(prevShare); ts.CanaryShare > ps {
		raised = true
	}
	if x.Mon["c03.matches"] != prevMatches && len(ts.CanaryMatches) > 0 {
		raised = true
	}
	if !raised {
		return
	}
	x.Count("C03 gateway writes raising canary traffic judged")
	idx, _, _, ok := StepCursor(ro)
	if !ok {
		return
	}
	br := &rolloutsv1beta1.BatchRelease{}
	if !x.W.Get(br, sc.ns(), AppName) {
		x.Violate("C03/order/traffic-before-pods/no-batchrelease", fmt.Sprintf("canary traffic raised to %s for step %d but no BatchRelease exists (no pods were released)", ts.String(), idx))
		return
	}
	st := br.Status.CanaryStatus
	var why []string
	reported, ok := x.Mon["c03.readyBatch"]
	if !ok {
		why = append(why, "the BatchRelease never reported a batch Ready (batchState="+string(st.CurrentBatchState)+")")
	} else if atoi(reported)+1 < int(idx) {
		why = append(why, fmt.Sprintf("the BatchRelease reported batch %s Ready at most, step %d needs batch %d", reported, idx, idx-1))
	}
	if len(why) > 0 {
		x.Violate("C03/order/traffic-before-pods", fmt.Sprintf("gateway write (%s %s) raised canary traffic to [%s] for step %d although %s", w.Verb, w.Key, ts.String(), idx, strings.Join(why, "; ")))
	}
}

func atoi(s string) int {
	var n int
	fmt.Sscanf(s, "%d", &n)
	return n
}

// OnTransition: when the Rollout persists "routed" (leaves StepTrafficRouting forward) the share equals the step's.
func (TrafficOrderMonitor) OnTransition(x *Ctx, t *Transition) {
	sc := x.Sc
	if sc.Traffic == "" || t.Actor != "R" {
		return
	}
	for i := range t.Log {
		w := &t.Log[i]
		if w.Key.GVR.Resource != "rollouts" || w.Verb != "update" {
			continue
		}
		before, after := asRollout(w.Before), asRollout(w.After)
		if before == nil || after == nil {
			continue
		}
		bi, bs, _, _ := StepCursor(before)
		ai, as, _, _ := StepCursor(after)
		// "reported as routed": the step leaves its routing part forwards - out of StepTrafficRouting, or past it
		// without ever entering it
		tr := stateOrder[string(rolloutsv1beta1.CanaryStepStateTrafficRouting)]
		if bi != ai || bs == "" || as == "" || stateOrder[bs] > tr || stateOrder[as] <= tr {
			continue
		}
		// a status write that records a new plan hash is the plan-change handler recomputing the cursor (it may mark
		// the step Ready so that the next reconcile moves on); it is not a report that the step's traffic was applied
		if sb, sa := before.Status.GetSubStatus(), after.Status.GetSubStatus(); sb != nil && sa != nil && sb.RolloutHash != sa.RolloutHash {
			x.Count("C03 cursor recomputations after a plan change (not a routed report)")
			continue
		}
		steps := after.Spec.Strategy.GetSteps()
		if int(ai) < 1 || int(ai) > len(steps) {
			continue
		}
		want, has := stepTraffic(steps[ai-1])
		if !has && len(steps[ai-1].Matches) == 0 {
			continue
		}
		// a partition-style step that replaces every pod has no stable pod left to share traffic with: the code
		// un-pins the stable Service and withdraws the routes instead (ingress-nginx 9635 bypass); not a routed report
		if v := ViewWorkload(x.W, sc); v != nil && rolloutsv1beta1.IsRealPartition(after) && steps[ai-1].Replicas != nil && scaled(steps[ai-1].Replicas, v.Replicas) >= v.Replicas {
			x.Count("C03 full-replacement partition steps (routes withdrawn instead, not judged)")
			continue
		}
		x.Count("C03 routed reports judged")
		ts := ReadTraffic(x.W, sc)
		if has && len(steps[ai-1].Matches) == 0 && ts.CanaryShare != want {
			x.Violate("C03/exact/share-differs-from-step", fmt.Sprintf("step %d reported as routed (%s -> %s) but the gateway sends %d%% to the canary, the step configures %d%%", ai, bs, as, ts.CanaryShare, want))
		}
		if len(steps[ai-1].Matches) > 0 && len(ts.CanaryMatches) == 0 {
			x.Violate("C03/exact/matches-missing", fmt.Sprintf("step %d reported as routed but no match rule targets the canary Service", ai))
		}
	}
}

// ---------------------------------------------------------------------------------------------
// C04: no request is routed into a void (evaluated after every single write = every crash prefix)
// ---------------------------------------------------------------------------------------------

type VoidMonitor struct{ BaseMonitor }

func (VoidMonitor) ID() string { return "C04" }

func (VoidMonitor) OnWrite(x *Ctx, w *Write) {
	sc := x.Sc
	if sc.Traffic == "" {
		return
	}
	ts := ReadTraffic(x.W, sc)
	v := ViewWorkload(x.W, sc)
	if v == nil {
		return
	}
	// void: traffic to the canary Service needs the Service, selecting the revision being released
	voidOK, voidWhy := true, ""
	if ts.RoutesToCanary {
		switch {
		case !ts.CanarySvcExists:
			voidOK, voidWhy = false, "the canary Service does not exist"
		case ts.CanarySvcRevision != shortHash(v.UpdateRev) && !cancellationUnderWay(x, w) && !(sc.Style == "canary" && sc.PatchPodMeta):
			// (with patchPodTemplateMetadata the canary Deployment's template, hence its hash, differs from the
			// workload's own update revision: there only the selection of the pods themselves is judged)
			voidOK, voidWhy = false, fmt.Sprintf("the canary Service selects revision %q, the revision being released is %q", ts.CanarySvcRevision, shortHash(v.UpdateRev))
		default:
			// "selects the new revision" on the pods themselves: the whole selector (not only the revision label) must
			// match the new-revision pods that exist
			if newPods, selected := canarySelection(x.W, sc, v); newPods > 0 && selected == 0 && !requested(x.Mon, "rollback", "release3") {
				voidOK, voidWhy = false, fmt.Sprintf("the canary Service's selector matches none of the %d new-revision pods", newPods)
			}
		}
	}
	// pinned: a pinned stable Service that still receives traffic needs pods of that revision
	pinOK, pinWhy := true, ""
	if ts.StablePinned != "" && ts.CanaryShare < 100 && v.ByRevision[ts.StablePinned] == 0 {
		pinOK, pinWhy = false, fmt.Sprintf("the stable Service is pinned to revision %q and receives %d%% of the traffic but no pod of that revision exists", ts.StablePinned, 100-ts.CanaryShare)
	}
	prevVoid, prevPin := x.Mon["c04.void"] != "0", x.Mon["c04.pin"] != "0"
	x.Count("C04 crash prefixes judged")
	if !voidOK && prevVoid {
		if isController(w.Actor) {
			x.Violate("C04/void/"+sigWrite(w)+"/"+sigContext(x.Mon), fmt.Sprintf("after %s %s by controller %s: gateway routes to the canary (%s) but %s", w.Verb, w.Key, w.Actor, ts.String(), voidWhy))
		} else {
			x.Count("C04 externally induced breaks (not charged)")
		}
	}
	if !pinOK && prevPin {
		if isController(w.Actor) {
			x.Violate("C04/pinned/"+sigWrite(w)+"/"+sigContext(x.Mon), fmt.Sprintf("after %s %s by controller %s: %s", w.Verb, w.Key, w.Actor, pinWhy))
		} else {
			x.Count("C04 externally induced breaks (not charged)")
		}
	}
	x.Mon["c04.void"] = b01(voidOK)
	x.Mon["c04.pin"] = b01(pinOK)
	// ordering: the stable Service is un-pinned before the knob lets the last stable pod go
	if w.Actor == "B" && w.Verb == "update" && !w.Status && w.Key.GVR.Resource == workloadResource(sc) && w.Key.Name == AppName &&
		exposureOf(sc, w.After) > exposureOf(sc, w.Before) && exposureOf(sc, w.After) >= v.Replicas && sc.Style == "partition" {
		x.Count("C04 last-stable-pod knob writes judged")
		ro := getRollout(x.W, sc)
		stable := ""
		if ro != nil && ro.Status.CanaryStatus != nil {
			stable = ro.Status.CanaryStatus.StableRevision
		}
		if ts.StablePinned != "" && ts.StablePinned == shortHash(stable) && ts.CanaryShare < 100 && !requested(x.Mon, "rollback", "release3", "exit") {
			x.Violate("C04/order/last-stable-pod-before-unpin", fmt.Sprintf("BatchRelease controller allowed every pod to be updated (%s) while the stable Service is still pinned to the stable revision %q and receives %d%% of the traffic", v.KnobText, stable, 100-ts.CanaryShare))
		}
	}
	// blue-green: the old-revision pods go when the BatchRelease controller hands the workload back to its native
	// controller (control annotation removed, strategy restored); the stable Service must not be pinned to the old
	// revision any more at that moment if it still receives traffic
	if w.Actor == "B" && w.Verb == "update" && !w.Status && w.Key.GVR.Resource == workloadResource(sc) && w.Key.Name == AppName && sc.Style == "bluegreen" &&
		controlledOf(w.Before) && !controlledOf(w.After) {
		x.Count("C04 blue-green hand-backs judged")
		if ts.StablePinned != "" && ts.StablePinned != shortHash(v.UpdateRev) && ts.CanaryShare < 100 && v.ByRevision[ts.StablePinned] > 0 {
			x.Violate("C04/order/workload-handed-back-before-unpin/"+sc.Kind+"-"+sc.Style, fmt.Sprintf("the BatchRelease controller handed the workload back to its native controller (which now replaces the %d pods of revision %q) while the stable Service is still pinned to that revision and receives %d%% of the traffic",
				v.ByRevision[ts.StablePinned], ts.StablePinned, 100-ts.CanaryShare))
		}
	}
}

// cancellationUnderWay: the user reverted or superseded the release and the BatchRelease of the abandoned
// release has not been removed yet. During that window the canary Service legitimately still selects the
// abandoned revision (its pods exist and the routes are being withdrawn, gateway -> BatchRelease -> canary
// Service); once that BatchRelease is gone a route to the canary Service is judged against the revision now
// being released again.
func cancellationUnderWay(x *Ctx, w *Write) bool {
	if !requested(x.Mon, "rollback", "release3") {
		return false
	}
	cancelled := x.Mon["ctx.brAtCancel"]
	if cancelled == "" || cancelled == "none" {
		return true // the change did not arrive during a rollout: no cancellation order to hold the controller to
	}
	for _, o := range x.W.Store.PeekAll("batchreleases") {
		if string(accessor(o).GetUID()) == cancelled {
			return true
		}
	}
	return w != nil && w.Key.GVR.Resource == "batchreleases" && w.Before != nil && string(accessor(w.Before).GetUID()) == cancelled && w.Verb != "delete"
}

func b01(b bool) string {
	if b {
		return "1"
	}
	return "0"
}

func sigWrite(w *Write) string { return w.Verb + "-" + w.Key.GVR.Resource + "-by-" + w.Actor }

// sigContext separates the histories in which a violation happens (a finding that needs a superseding
// release must not hide one that happens in a plain release).
func sigContext(m MonState) string {
	switch {
	case m["ctx.supersededKnob"] != "":
		return "after-superseded-batchrelease-opened-the-knob"
	case requested(m, "release3"):
		return "after-supersession"
	case requested(m, "rollback"):
		return "after-rollback"
	case requested(m, "exit"):
		return "during-exit"
	case requested(m, "jump"):
		return "after-step-jump"
	}
	return "plain-release"
}

// ---------------------------------------------------------------------------------------------
// C10: rollback and supersession put traffic back on stable first
// ---------------------------------------------------------------------------------------------

type RollbackOrderMonitor struct{ BaseMonitor }

func (RollbackOrderMonitor) ID() string { return "C10" }

func (RollbackOrderMonitor) OnWrite(x *Ctx, w *Write) {
	sc := x.Sc
	// supersession restarts from step one: the BatchRelease of the superseded release must not open the update
	// knob for the new revision
	if w.Actor == "B" && w.Verb == "update" && !w.Status && w.Key.GVR.Resource == workloadResource(sc) && w.Before != nil && w.After != nil &&
		exposureOf(sc, w.After) > exposureOf(sc, w.Before) && exposureOf(sc, w.Before) >= 0 {
		if v := ViewWorkload(x.W, sc); v != nil && x.Mon["ctx.brRev"] != "" && x.Mon["ctx.brRev"] != shortHash(v.UpdateRev) {
			x.Count("C10 knob writes by a superseded BatchRelease judged")
			x.Violate("C10/supersede/superseded-batchrelease-opens-knob/"+sc.Kind+"-"+sc.Style, fmt.Sprintf("the workload's template changed to revision %s while the BatchRelease created for revision %s is still progressing; instead of standing still until the Rollout restarts from step one, that BatchRelease adopted the new revision and opened the update knob for it (%s: %d -> %d pods)",
				shortHash(v.UpdateRev), x.Mon["ctx.brRev"], v.KnobText, exposureOf(sc, w.Before), exposureOf(sc, w.After)))
		}
	}
	if sc.Traffic == "" || !requested(x.Mon, "rollback", "release3") || !isController(w.Actor) {
		return
	}
	// only the release that was in flight when the user reverted / superseded it is being cancelled
	cancelled := x.Mon["ctx.brAtCancel"]
	if cancelled == "" || cancelled == "none" {
		return
	}
	// dispatch: a revert of a release with traffic routing is a cancellation (rollback in batches is only for
	// rollouts without traffic routing). A reconcile that could see the revert (the workload's status had caught
	// up with its spec when the reconcile began) must not go on walking the steps.
	if w.Actor == "R" && w.Status && w.Key.GVR.Resource == "rollouts" && requested(x.Mon, "rollback") && !requested(x.Mon, "release3", "exit") && x.Pre != nil && x.Pre.Workload != nil {
		b, a := asRollout(w.Before), asRollout(w.After)
		pg, po := generationOf(x.Pre.Workload)
		if b != nil && a != nil && pg == po && progressingReason(b) == "InRolling" && progressingReason(a) == "InRolling" {
			bi, bs, _, _ := StepCursor(b)
			ai, as, _, _ := StepCursor(a)
			if bi != ai || bs != as {
				if !rollbackVisible(x.Pre.Workload) {
					x.Mon["ctx.revertNotVisible"] = "1"
				}
				x.Violate("C10/dispatch/reverted-release-keeps-stepping/"+sc.Kind+"-"+sc.Style+revertContext(x.Mon), fmt.Sprintf("the workload was reverted to the stable revision (and its status had caught up), but the Rollout went on through its steps: step %d/%s -> %d/%s under reason InRolling instead of cancelling the release", bi, bs, ai, as))
			}
		}
	}
	stillThere := false
	for _, o := range x.W.Store.PeekAll("batchreleases") {
		if string(accessor(o).GetUID()) == cancelled {
			stillThere = true
		}
	}
	if w.Key.GVR.Resource == "batchreleases" && w.Before != nil && string(accessor(w.Before).GetUID()) == cancelled {
		stillThere = true
	}
	if !stillThere {
		return
	}
	ts := ReadTraffic(x.W, sc)
	if !ts.RoutesToCanary {
		return
	}
	// traffic still goes to the canary: the new-revision pods must not be removed / the workload not handed back
	switch {
	case w.Key.GVR.Resource == "batchreleases" && w.Verb == "delete":
		x.Violate("C10/order/batchrelease-deleted-before-traffic-restored", "BatchRelease deleted while the gateway still routes to the canary: "+ts.String())
	case w.Key.GVR.Resource == "batchreleases" && w.Verb == "update" && !w.Status:
		b, a := asBR(w.Before), asBR(w.After)
		if b != nil && a != nil && b.Spec.ReleasePlan.BatchPartition != nil && a.Spec.ReleasePlan.BatchPartition == nil {
			x.Violate("C10/order/workload-resumed-before-traffic-restored", "BatchRelease batchPartition set to nil (resume workload) while the gateway still routes to the canary: "+ts.String())
		}
		if b != nil && a != nil && b.DeletionTimestamp == nil && a.DeletionTimestamp != nil {
			x.Violate("C10/order/batchrelease-deleted-before-traffic-restored", "BatchRelease deletion requested while the gateway still routes to the canary: "+ts.String())
		}
	case w.Key.GVR.Resource == workloadResource(sc) && w.Key.Name == AppName && w.Actor == "B" && w.Verb == "update" && !w.Status:
		bv, av := controlledOf(w.Before), controlledOf(w.After)
		if bv && !av {
			x.Violate("C10/order/workload-released-before-traffic-restored", "workload handed back to its native controller (control annotation removed) while the gateway still routes to the canary: "+ts.String())
		}
	case w.Key.GVR.Resource == "services" && w.Verb == "delete" && w.Key.Name == AppName+"-canary":
		// covered by C04.void as well
		x.Violate("C10/order/canary-service-deleted-before-traffic-restored", "canary Service deleted while the gateway still routes to it: "+ts.String())
	}
	x.Count("C10 cancellation writes judged")
}

// OnState: after a rollback the rollout ends reported as not succeeded; after supersession a fresh pass starts.
func (RollbackOrderMonitor) OnState(x *Ctx, quiescent bool) {
	if !quiescent || !requested(x.Mon, "rollback") || requested(x.Mon, "release3", "exit") {
		return
	}
	ro := getRollout(x.W, x.Sc)
	if ro == nil {
		return
	}
	cancelled := x.Mon["ctx.brAtCancel"]
	if ro.Status.Phase == rolloutsv1beta1.RolloutPhaseProgressing && progressingReason(ro) == "InRolling" && cancelled != "" && cancelled != "none" &&
		x.Sc.Traffic != "" && !ro.Spec.Strategy.Paused && ro.DeletionTimestamp == nil && !ro.Spec.Disabled {
		// nothing will happen any more, and the reverted release has neither been cancelled nor has it ended
		x.Count("C10 settled states after rollback judged")
		if wl := getWorkload(x.W, x.Sc); wl != nil && !rollbackVisible(wl) {
			x.Mon["ctx.revertNotVisible"] = "1" // the workload's own status does not show a rollback in progress (known blind spot)
		}
		x.Violate("C10/end/reverted-release-not-cancelled/"+x.Sc.Kind+"-"+x.Sc.Style+revertContext(x.Mon), "the release was reverted during the rollout; every controller is idle and nothing is pending, but the Rollout is still Progressing / InRolling ("+ro.Status.Message+"): the release was never cancelled")
		return
	}
	if ro.Status.Phase != rolloutsv1beta1.RolloutPhaseHealthy {
		return
	}
	x.Count("C10 settled states after rollback judged")
	if cancelled == "" || cancelled == "none" {
		return // the revert did not arrive during a rollout
	}
	cond := util.GetRolloutCondition(ro.Status, rolloutsv1beta1.RolloutConditionSucceeded)
	if cond == nil || cond.Status != corev1.ConditionFalse {
		st := "absent"
		if cond != nil {
			st = string(cond.Status)
		}
		x.Violate("C10/end/rollback-not-reported-as-not-succeeded/"+x.Sc.Kind+"-"+x.Sc.Style+revertContext(x.Mon), "the release was reverted during the rollout and the rollout has ended (phase Healthy), but its Succeeded condition is "+st+" instead of False")
	}
}

// revertContext: history class of a revert (part of the signature).
func revertContext(m MonState) string {
	if m["ctx.revertNotVisible"] != "" {
		return "/workload-status-showed-no-rollback-in-progress"
	}
	return ""
}

// rollbackVisible: does the workload's own status show a rollback in progress? A CloneSet / StatefulSet does so
// only while its current revision equals its update revision and not every pod is counted as updated; a revert
// that arrives before any pod was updated, after every pod was updated (the workload has adopted the released
// revision as its current one), or that the workload controller has already carried out, looks like a template
// change. A Deployment is compared by template and always shows it.
func rollbackVisible(o runtime.Object) bool {
	switch t := o.(type) {
	case *kruiseappsv1alpha1.CloneSet:
		return t.Status.CurrentRevision == t.Status.UpdateRevision && t.Status.UpdatedReplicas != t.Status.Replicas
	case *apps.StatefulSet:
		return t.Status.CurrentRevision == t.Status.UpdateRevision && t.Status.UpdatedReplicas != t.Status.Replicas
	case *kruiseappsv1alpha1.DaemonSet:
		return false // the finder has no rollback test for a DaemonSet at all
	}
	return true
}

// generationOf returns (metadata.generation, status.observedGeneration) of a workload object.
func generationOf(o runtime.Object) (int64, int64) {
	switch t := o.(type) {
	case *kruiseappsv1alpha1.CloneSet:
		return t.Generation, t.Status.ObservedGeneration
	case *apps.Deployment:
		return t.Generation, t.Status.ObservedGeneration
	case *apps.StatefulSet:
		return t.Generation, t.Status.ObservedGeneration
	case *kruiseappsv1alpha1.DaemonSet:
		return t.Generation, t.Status.ObservedGeneration
	}
	return 0, -1
}

// canarySelection counts the live pods of the revision being released and how many of them the canary Service's
// selector matches.
func canarySelection(w *World, sc *Scenario, v *WorkloadView) (newPods, selected int) {
	csvc := &corev1.Service{}
	if !w.Get(csvc, sc.ns(), AppName+"-canary") {
		return 0, 0
	}
	rev := shortHash(v.UpdateRev)
	// canary style: the new-revision pods are the pods of the canary Deployment's ReplicaSets
	canaryRS := map[string]bool{}
	if sc.Style == "canary" {
		canaryDeploys := map[string]bool{}
		for _, o := range w.Store.PeekAll("deployments") {
			if d, ok := o.(*apps.Deployment); ok && d.Namespace == sc.ns() && d.Name != AppName && d.DeletionTimestamp == nil {
				canaryDeploys[string(d.UID)] = true
			}
		}
		for _, o := range w.Store.PeekAll("replicasets") {
			if rs, ok := o.(*apps.ReplicaSet); ok && rs.Namespace == sc.ns() {
				for _, ref := range rs.OwnerReferences {
					if canaryDeploys[string(ref.UID)] {
						canaryRS[string(rs.UID)] = true
					}
				}
			}
		}
	}
	for _, o := range w.Store.PeekAll("pods") {
		p, ok := o.(*corev1.Pod)
		if !ok || p.Namespace != sc.ns() || p.DeletionTimestamp != nil {
			continue
		}
		if sc.Style == "canary" {
			owned := false
			for _, ref := range p.OwnerReferences {
				if canaryRS[string(ref.UID)] {
					owned = true
				}
			}
			if !owned {
				continue
			}
		} else if p.Labels[apps.DefaultDeploymentUniqueLabelKey] != rev {
			continue
		}
		newPods++
		match := true
		for k, val := range csvc.Spec.Selector {
			if p.Labels[k] != val {
				match = false
			}
		}
		if match {
			selected++
		}
	}
	return
}
