package sim

import (
	"context"
	"fmt"
	"strings"

	kruiseappsv1alpha1 "github.com/openkruise/kruise-api/apps/v1alpha1"
	rolloutsv1alpha1 "github.com/openkruise/rollouts/api/v1alpha1"
	rolloutsv1beta1 "github.com/openkruise/rollouts/api/v1beta1"
	apps "k8s.io/api/apps/v1"
	corev1 "k8s.io/api/core/v1"
	netv1 "k8s.io/api/networking/v1"
	metav1 "k8s.io/apimachinery/pkg/apis/meta/v1"
	"k8s.io/apimachinery/pkg/apis/meta/v1/unstructured"
	"k8s.io/apimachinery/pkg/util/intstr"
	utilpointer "k8s.io/utils/pointer"
	"sigs.k8s.io/controller-runtime/pkg/client"
	gatewayv1beta1 "sigs.k8s.io/gateway-api/apis/v1beta1"
)

// StepSpec is one step of a scenario's plan.
type StepSpec struct {
	Replicas string // "1", "20%"
	Traffic  string // "", "20%"
	Header   string // "" or header value for a header match step (header name "user")
	Pause    *int32 // nil = manual approval; N = duration seconds
}

// Scenario is data: workload kind/style × traffic provider × plan × enabled deviations.
type Scenario struct {
	ID           string
	Kind         string // CloneSet, Deployment, StatefulSet, AdvancedStatefulSet, DaemonSet
	Style        string // partition, canary, bluegreen
	Replicas     int32
	Steps        []StepSpec
	Traffic      string // "", ingress, gateway, custom
	IngressClass string
	Grace        int32
	RolloutID    bool
	// StaleCanaryService pre-creates "<svc>-canary" selecting some long-gone revision (a leftover of an earlier,
	// interrupted rollout): legal input the controllers must re-point before routing to it.
	StaleCanaryService bool
	// SiblingBackend: the user's HTTPRoute rule has a second backendRef next to the stable Service (gateway)
	SiblingBackend bool
	// ColdStart: the workload has just been created - spec.replicas > 0, but no pod exists yet and the status
	// still says replicas 0 when the user changes the template (CloneSet)
	ColdStart bool
	// Recreate: the user's Deployment uses strategy Recreate
	Recreate bool
	// RollbackInBatch sets the rollouts.kruise.io/rollback-in-batch annotation on the Rollout
	RollbackInBatch bool
	// MaxSurge / MaxUnavailable: the user's rolling-update parameters of a Deployment (default "25%" / "25%")
	MaxSurge, MaxUnavailable string
	// PatchPodMeta: the canary strategy patches the label track=canary onto the canary pods while the user's pods and
	// the stable Service's selector carry track=stable
	PatchPodMeta bool
	// CustomDR: the custom provider drives a second network object, an Istio DestinationRule, besides the VirtualService
	CustomDR bool
	// HPA: the user has a HorizontalPodAutoscaler targeting the workload (blue-green releases disable and restore it)
	HPA bool
	// TRCR: traffic is not configured in the Rollout's strategy but by a separate TrafficRouting custom resource
	// ("tr", weight 20%) that the Rollout references through the rollouts.kruise.io/trafficrouting annotation
	TRCR bool
	// Deviation alphabet (user actions) enabled in this scenario.
	Actions []string
	NS      string
}

const (
	DefaultNS = "ns1"
	AppName   = "demo"
	TRName    = "tr"
)

func parseIS(s string) *intstr.IntOrString {
	v := intstr.Parse(s)
	return &v
}

func (sc *Scenario) ns() string {
	if sc.NS != "" {
		return sc.NS
	}
	return DefaultNS
}

func (sc *Scenario) steps() []rolloutsv1beta1.CanaryStep {
	var out []rolloutsv1beta1.CanaryStep
	for _, s := range sc.Steps {
		st := rolloutsv1beta1.CanaryStep{Replicas: parseIS(s.Replicas), Pause: rolloutsv1beta1.RolloutPause{Duration: s.Pause}}
		if s.Traffic != "" {
			st.Traffic = utilpointer.String(s.Traffic)
		}
		if s.Header != "" {
			// a header-match step: requests with header user=<value> go to the canary
			exact := gatewayv1beta1.HeaderMatchExact
			st.Matches = []rolloutsv1beta1.HttpRouteMatch{{Headers: []gatewayv1beta1.HTTPHeaderMatch{{Type: &exact, Name: "user", Value: s.Header}}}}
		}
		out = append(out, st)
	}
	return out
}

func podTemplate(image string) corev1.PodTemplateSpec {
	return corev1.PodTemplateSpec{
		ObjectMeta: metav1.ObjectMeta{Labels: map[string]string{"app": AppName}},
		Spec:       corev1.PodSpec{Containers: []corev1.Container{{Name: "main", Image: image}}},
	}
}

// Build populates the world with the scenario's initial, quiescent cluster: workload at v1 with all pods
// ready, network objects, the Rollout (admitted through the real validating handler) and lets the
// controllers and env models run to quiescence (Rollout Healthy) before exploration starts.
func (sc *Scenario) Build(w *World) error {
	ctx := context.TODO()
	ns := sc.ns()
	w.Store.Actor = "init"
	w.ColdStart = sc.ColdStart
	defer func() { w.Store.Actor = "" }()
	cfg, err := LoadWebhookConfiguration()
	if err != nil {
		return err
	}
	if err := w.Raw.Create(ctx, cfg); err != nil {
		return err
	}
	switch sc.Kind {
	case "CloneSet":
		cs := &kruiseappsv1alpha1.CloneSet{
			ObjectMeta: metav1.ObjectMeta{Namespace: ns, Name: AppName, Labels: map[string]string{"app": AppName}},
			Spec: kruiseappsv1alpha1.CloneSetSpec{
				Replicas: utilpointer.Int32(sc.Replicas),
				Selector: &metav1.LabelSelector{MatchLabels: map[string]string{"app": AppName}},
				Template: podTemplate("app:v1"),
				UpdateStrategy: kruiseappsv1alpha1.CloneSetUpdateStrategy{
					MaxUnavailable: parseIS("20%"),
				},
			},
		}
		if err := w.Raw.Create(ctx, cs); err != nil {
			return err
		}
		rev := RevisionOf(cs.Name, &cs.Spec.Template)
		for i := 0; i < int(sc.Replicas) && !sc.ColdStart; i++ {
			p := NewPod(ns, fmt.Sprintf("%s-%d", cs.Name, i), cs.Spec.Template.Labels, rev, ownerRef(cs, "CloneSet", kruiseappsv1alpha1.SchemeGroupVersion.String()), true)
			if err := w.Raw.Create(ctx, p); err != nil {
				return err
			}
		}
		w.Env = append(w.Env, &CloneSetEnv{NS: ns, CSName: AppName})
	case "Deployment":
		d := &apps.Deployment{
			ObjectMeta: metav1.ObjectMeta{Namespace: ns, Name: AppName, Labels: map[string]string{"app": AppName}},
			Spec: apps.DeploymentSpec{
				Replicas: utilpointer.Int32(sc.Replicas),
				Selector: &metav1.LabelSelector{MatchLabels: map[string]string{"app": AppName}},
				Template: podTemplate("app:v1"),
				Strategy: apps.DeploymentStrategy{Type: apps.RollingUpdateDeploymentStrategyType,
					RollingUpdate: &apps.RollingUpdateDeployment{MaxSurge: parseIS("25%"), MaxUnavailable: parseIS("25%")}},
				// the API server's defaults (a stored Deployment always carries them)
				ProgressDeadlineSeconds: utilpointer.Int32(600),
				RevisionHistoryLimit:    utilpointer.Int32(10),
			},
		}
		if sc.MaxSurge != "" {
			d.Spec.Strategy.RollingUpdate.MaxSurge = parseIS(sc.MaxSurge)
		}
		if sc.MaxUnavailable != "" {
			d.Spec.Strategy.RollingUpdate.MaxUnavailable = parseIS(sc.MaxUnavailable)
		}
		if sc.Recreate {
			d.Spec.Strategy = apps.DeploymentStrategy{Type: apps.RecreateDeploymentStrategyType}
		}
		if sc.PatchPodMeta {
			d.Spec.Template.Labels["track"] = "stable"
		}
		if err := w.Raw.Create(ctx, d); err != nil {
			return err
		}
		w.Env = append(w.Env, &DeploymentEnv{NS: ns})
		// let the native controller model bring the Deployment up (ReplicaSet, pods, status)
		for i := 0; i < 200; i++ {
			st := w.Env[0].Steps(w)
			if len(st) == 0 {
				break
			}
			if err := w.Env[0].Do(w, st[0]); err != nil {
				return err
			}
		}
	case "StatefulSet":
		st := &apps.StatefulSet{
			ObjectMeta: metav1.ObjectMeta{Namespace: ns, Name: AppName, Labels: map[string]string{"app": AppName}},
			Spec: apps.StatefulSetSpec{
				Replicas:    utilpointer.Int32(sc.Replicas),
				ServiceName: AppName,
				Selector:    &metav1.LabelSelector{MatchLabels: map[string]string{"app": AppName}},
				Template:    podTemplate("app:v1"),
				UpdateStrategy: apps.StatefulSetUpdateStrategy{Type: apps.RollingUpdateStatefulSetStrategyType,
					RollingUpdate: &apps.RollingUpdateStatefulSetStrategy{Partition: utilpointer.Int32(0)}},
			},
		}
		if err := w.Raw.Create(ctx, st); err != nil {
			return err
		}
		rev := RevisionOf(st.Name, &st.Spec.Template)
		for i := 0; i < int(sc.Replicas); i++ {
			if err := w.Raw.Create(ctx, NewPod(ns, fmt.Sprintf("%s-%d", st.Name, i), st.Spec.Template.Labels, rev, ownerRef(st, "StatefulSet", "apps/v1"), true)); err != nil {
				return err
			}
		}
		w.Env = append(w.Env, &StatefulSetEnv{NS: ns, STS: AppName})
	case "DaemonSet":
		ds := &kruiseappsv1alpha1.DaemonSet{
			ObjectMeta: metav1.ObjectMeta{Namespace: ns, Name: AppName, Labels: map[string]string{"app": AppName}},
			Spec: kruiseappsv1alpha1.DaemonSetSpec{
				Selector: &metav1.LabelSelector{MatchLabels: map[string]string{"app": AppName}},
				Template: podTemplate("app:v1"),
				UpdateStrategy: kruiseappsv1alpha1.DaemonSetUpdateStrategy{Type: kruiseappsv1alpha1.RollingUpdateDaemonSetStrategyType,
					RollingUpdate: &kruiseappsv1alpha1.RollingUpdateDaemonSet{MaxUnavailable: parseIS("1")}},
			},
		}
		if err := w.Raw.Create(ctx, ds); err != nil {
			return err
		}
		rev := RevisionOf(ds.Name, &ds.Spec.Template)
		for i := 0; i < int(sc.Replicas); i++ {
			if err := w.Raw.Create(ctx, NewPod(ns, fmt.Sprintf("%s-n%d", ds.Name, i), ds.Spec.Template.Labels, rev, ownerRef(ds, "DaemonSet", kruiseappsv1alpha1.SchemeGroupVersion.String()), true)); err != nil {
				return err
			}
		}
		w.Env = append(w.Env, &DaemonSetEnv{NS: ns, DS: AppName, Nodes: int(sc.Replicas)})
	default:
		return fmt.Errorf("scenario kind %q not supported yet", sc.Kind)
	}
	if sc.Traffic != "" {
		svc := &corev1.Service{ObjectMeta: metav1.ObjectMeta{Namespace: ns, Name: AppName},
			Spec: corev1.ServiceSpec{Selector: map[string]string{"app": AppName}, Ports: []corev1.ServicePort{{Port: 80, TargetPort: intstr.FromInt(8080)}}}}
		if sc.PatchPodMeta {
			svc.Spec.Selector["track"] = "stable"
		}
		if err := w.Raw.Create(ctx, svc); err != nil {
			return err
		}
	}
	if sc.Traffic != "" && sc.StaleCanaryService {
		svc := &corev1.Service{ObjectMeta: metav1.ObjectMeta{Namespace: ns, Name: AppName + "-canary"},
			Spec: corev1.ServiceSpec{Selector: map[string]string{"app": AppName, "pod-template-hash": "stale0"}, Ports: []corev1.ServicePort{{Port: 80, TargetPort: intstr.FromInt(8080)}}}}
		if err := w.Raw.Create(ctx, svc); err != nil {
			return err
		}
	}
	if sc.Traffic == "ingress" || sc.Traffic == "ingress+gateway" {
		pt := netv1.PathTypePrefix
		ing := &netv1.Ingress{ObjectMeta: metav1.ObjectMeta{Namespace: ns, Name: AppName, Annotations: map[string]string{"kubernetes.io/ingress.class": "nginx"}},
			Spec: netv1.IngressSpec{Rules: []netv1.IngressRule{{Host: "demo.example.com", IngressRuleValue: netv1.IngressRuleValue{HTTP: &netv1.HTTPIngressRuleValue{
				Paths: []netv1.HTTPIngressPath{{Path: "/", PathType: &pt, Backend: netv1.IngressBackend{Service: &netv1.IngressServiceBackend{Name: AppName, Port: netv1.ServiceBackendPort{Number: 80}}}}}}}}}}}
		if err := w.Raw.Create(ctx, ing); err != nil {
			return err
		}
	}
	if sc.Traffic == "gateway" || sc.Traffic == "ingress+gateway" {
		kind := gatewayv1beta1.Kind("Service")
		group := gatewayv1beta1.Group("")
		port := gatewayv1beta1.PortNumber(80)
		weight := int32(1)
		pathType := gatewayv1beta1.PathMatchPathPrefix
		path := "/"
		rt := &gatewayv1beta1.HTTPRoute{ObjectMeta: metav1.ObjectMeta{Namespace: ns, Name: AppName},
			Spec: gatewayv1beta1.HTTPRouteSpec{Rules: []gatewayv1beta1.HTTPRouteRule{{
				Matches: []gatewayv1beta1.HTTPRouteMatch{{Path: &gatewayv1beta1.HTTPPathMatch{Type: &pathType, Value: &path}}},
				BackendRefs: []gatewayv1beta1.HTTPBackendRef{{BackendRef: gatewayv1beta1.BackendRef{
					BackendObjectReference: gatewayv1beta1.BackendObjectReference{Group: &group, Kind: &kind, Name: AppName, Port: &port}, Weight: &weight}}},
			}}}}
		if sc.SiblingBackend {
			// the user's rule splits between the stable Service and another Service of theirs
			w2 := int32(1)
			rt.Spec.Rules[0].BackendRefs = append(rt.Spec.Rules[0].BackendRefs, gatewayv1beta1.HTTPBackendRef{BackendRef: gatewayv1beta1.BackendRef{
				BackendObjectReference: gatewayv1beta1.BackendObjectReference{Group: &group, Kind: &kind, Name: "legacy", Port: &port}, Weight: &w2}})
		}
		if err := w.Raw.Create(ctx, rt); err != nil {
			return err
		}
	}
	if sc.HPA {
		hpa := &unstructured.Unstructured{Object: map[string]interface{}{
			"apiVersion": "autoscaling/v2", "kind": "HorizontalPodAutoscaler",
			"metadata": map[string]interface{}{"namespace": ns, "name": AppName},
			"spec": map[string]interface{}{"minReplicas": int64(1), "maxReplicas": int64(10),
				"scaleTargetRef": map[string]interface{}{"apiVersion": map[string]string{"CloneSet": "apps.kruise.io/v1alpha1"}[sc.Kind] + map[bool]string{true: "", false: "apps/v1"}[sc.Kind == "CloneSet"], "kind": sc.Kind, "name": AppName}},
		}}
		if err := w.Raw.Create(ctx, hpa); err != nil {
			return err
		}
	}
	if sc.Traffic == "custom" {
		if err := w.Raw.Create(ctx, NewVirtualService(ns)); err != nil {
			return err
		}
		if sc.CustomDR {
			dr := &unstructured.Unstructured{Object: map[string]interface{}{
				"apiVersion": "networking.istio.io/v1beta1", "kind": "DestinationRule",
				"metadata": map[string]interface{}{"namespace": ns, "name": AppName},
				"spec": map[string]interface{}{"host": AppName,
					"trafficPolicy": map[string]interface{}{"loadBalancer": map[string]interface{}{"simple": "ROUND_ROBIN"}},
					"subsets":       []interface{}{map[string]interface{}{"name": "version-base", "labels": map[string]interface{}{"version": "base"}}}},
			}}
			if err := w.Raw.Create(ctx, dr); err != nil {
				return err
			}
		}
	}
	if sc.TRCR {
		ref := rolloutsv1alpha1.TrafficRoutingRef{Service: AppName, GracePeriodSeconds: sc.Grace}
		switch sc.Traffic {
		case "ingress":
			ref.Ingress = &rolloutsv1alpha1.IngressTrafficRouting{Name: AppName}
		case "gateway":
			ref.Gateway = &rolloutsv1alpha1.GatewayTrafficRouting{HTTPRouteName: utilpointer.String(AppName)}
		case "custom":
			ref.CustomNetworkRefs = []rolloutsv1alpha1.CustomNetworkRef{{APIVersion: "networking.istio.io/v1alpha3", Kind: "VirtualService", Name: AppName}}
		}
		tr := &rolloutsv1alpha1.TrafficRouting{ObjectMeta: metav1.ObjectMeta{Namespace: ns, Name: TRName},
			Spec: rolloutsv1alpha1.TrafficRoutingSpec{ObjectRef: []rolloutsv1alpha1.TrafficRoutingRef{ref},
				Strategy: rolloutsv1alpha1.TrafficRoutingStrategy{Weight: utilpointer.Int32(20)}}}
		if err := w.Raw.Create(ctx, tr); err != nil {
			return err
		}
	}
	ro := sc.Rollout()
	if err := w.ValidateRollout(nil, ro); err != nil {
		return err
	}
	if err := w.Raw.Create(ctx, ro); err != nil {
		return err
	}
	return nil
}

// NewVirtualService is the user's Istio VirtualService of the "custom" (Lua) provider scenarios.
func NewVirtualService(ns string) *unstructured.Unstructured {
	u := &unstructured.Unstructured{Object: map[string]interface{}{
		"apiVersion": "networking.istio.io/v1alpha3", "kind": "VirtualService",
		"metadata": map[string]interface{}{"namespace": ns, "name": AppName},
		"spec": map[string]interface{}{
			"hosts":    []interface{}{"*"},
			"gateways": []interface{}{"nginx-gateway"},
			"http": []interface{}{map[string]interface{}{"route": []interface{}{
				map[string]interface{}{"destination": map[string]interface{}{"host": AppName}}}}},
		},
	}}
	return u
}

// Rollout builds the scenario's Rollout object.
func (sc *Scenario) Rollout() *rolloutsv1beta1.Rollout {
	ro := &rolloutsv1beta1.Rollout{ObjectMeta: metav1.ObjectMeta{Namespace: sc.ns(), Name: AppName}}
	if sc.RollbackInBatch {
		ro.Annotations = map[string]string{"rollouts.kruise.io/rollback-in-batch": "true"}
	}
	switch sc.Kind {
	case "CloneSet":
		ro.Spec.WorkloadRef = rolloutsv1beta1.ObjectRef{APIVersion: "apps.kruise.io/v1alpha1", Kind: "CloneSet", Name: AppName}
	case "Deployment":
		ro.Spec.WorkloadRef = rolloutsv1beta1.ObjectRef{APIVersion: "apps/v1", Kind: "Deployment", Name: AppName}
	case "StatefulSet":
		ro.Spec.WorkloadRef = rolloutsv1beta1.ObjectRef{APIVersion: "apps/v1", Kind: "StatefulSet", Name: AppName}
	case "DaemonSet":
		ro.Spec.WorkloadRef = rolloutsv1beta1.ObjectRef{APIVersion: "apps.kruise.io/v1alpha1", Kind: "DaemonSet", Name: AppName}
	}
	var trs []rolloutsv1beta1.TrafficRoutingRef
	traffic := sc.Traffic
	if sc.TRCR {
		traffic = ""
		if ro.Annotations == nil {
			ro.Annotations = map[string]string{}
		}
		ro.Annotations[rolloutsv1alpha1.TrafficRoutingAnnotation] = TRName
	}
	switch traffic {
	case "ingress":
		trs = []rolloutsv1beta1.TrafficRoutingRef{{Service: AppName, GracePeriodSeconds: sc.Grace, Ingress: &rolloutsv1beta1.IngressTrafficRouting{ClassType: sc.IngressClass, Name: AppName}}}
	case "gateway":
		trs = []rolloutsv1beta1.TrafficRoutingRef{{Service: AppName, GracePeriodSeconds: sc.Grace, Gateway: &rolloutsv1beta1.GatewayTrafficRouting{HTTPRouteName: utilpointer.String(AppName)}}}
	case "ingress+gateway": // one reference, two providers (they run together as a composite provider)
		trs = []rolloutsv1beta1.TrafficRoutingRef{{Service: AppName, GracePeriodSeconds: sc.Grace, Ingress: &rolloutsv1beta1.IngressTrafficRouting{ClassType: sc.IngressClass, Name: AppName},
			Gateway: &rolloutsv1beta1.GatewayTrafficRouting{HTTPRouteName: utilpointer.String(AppName)}}}
	case "custom":
		trs = []rolloutsv1beta1.TrafficRoutingRef{{Service: AppName, GracePeriodSeconds: sc.Grace,
			CustomNetworkRefs: []rolloutsv1beta1.ObjectRef{{APIVersion: "networking.istio.io/v1alpha3", Kind: "VirtualService", Name: AppName}}}}
		if sc.CustomDR {
			trs[0].CustomNetworkRefs = append(trs[0].CustomNetworkRefs, rolloutsv1beta1.ObjectRef{APIVersion: "networking.istio.io/v1beta1", Kind: "DestinationRule", Name: AppName})
		}
	}
	switch sc.Style {
	case "bluegreen":
		ro.Spec.Strategy.BlueGreen = &rolloutsv1beta1.BlueGreenStrategy{Steps: sc.steps(), TrafficRoutings: trs}
	default:
		ro.Spec.Strategy.Canary = &rolloutsv1beta1.CanaryStrategy{Steps: sc.steps(), TrafficRoutings: trs, EnableExtraWorkloadForCanary: sc.Style == "canary"}
		if sc.PatchPodMeta {
			ro.Spec.Strategy.Canary.PatchPodTemplateMetadata = &rolloutsv1beta1.PatchPodTemplateMetadata{Labels: map[string]string{"track": "canary"}}
		}
	}
	return ro
}

// ---------------------------------------------------------------------------------------------
// User actions (each is one transition; workload writes go through the real mutating handler)
// ---------------------------------------------------------------------------------------------

// UserSetImage is `kubectl set image`: release(v2), rollback(v1), release(v3).
func (w *World) UserSetImage(sc *Scenario, image string) error {
	ctx := context.TODO()
	switch sc.Kind {
	case "CloneSet":
		old := &kruiseappsv1alpha1.CloneSet{}
		if !w.Get(old, sc.ns(), AppName) {
			return fmt.Errorf("workload gone")
		}
		upd := old.DeepCopy()
		upd.Spec.Template.Spec.Containers[0].Image = image
		if sc.RolloutID {
			// the user (or a PaaS) tags every release with a rollout-id; pods are then labelled per batch
			if upd.Labels == nil {
				upd.Labels = map[string]string{}
			}
			upd.Labels[rolloutsv1beta1.RolloutIDLabel] = "id-" + strings.TrimPrefix(image, "app:")
		}
		adm, err := w.AdmitWorkloadUpdate(old, upd)
		if err != nil {
			return err
		}
		return w.Raw.Update(ctx, adm)
	case "Deployment":
		old := &apps.Deployment{}
		if !w.Get(old, sc.ns(), AppName) {
			return fmt.Errorf("workload gone")
		}
		upd := old.DeepCopy()
		upd.Spec.Template.Spec.Containers[0].Image = image
		if sc.RolloutID {
			// the user (or a PaaS) tags every release with a rollout-id; pods are then labelled per batch
			if upd.Labels == nil {
				upd.Labels = map[string]string{}
			}
			upd.Labels[rolloutsv1beta1.RolloutIDLabel] = "id-" + strings.TrimPrefix(image, "app:")
		}
		adm, err := w.AdmitWorkloadUpdate(old, upd)
		if err != nil {
			return err
		}
		return w.Raw.Update(ctx, adm)
	case "StatefulSet":
		old := &apps.StatefulSet{}
		if !w.Get(old, sc.ns(), AppName) {
			return fmt.Errorf("workload gone")
		}
		upd := old.DeepCopy()
		upd.Spec.Template.Spec.Containers[0].Image = image
		if sc.RolloutID {
			// the user (or a PaaS) tags every release with a rollout-id; pods are then labelled per batch
			if upd.Labels == nil {
				upd.Labels = map[string]string{}
			}
			upd.Labels[rolloutsv1beta1.RolloutIDLabel] = "id-" + strings.TrimPrefix(image, "app:")
		}
		adm, err := w.AdmitWorkloadUpdate(old, upd)
		if err != nil {
			return err
		}
		return w.Raw.Update(ctx, adm)
	}
	if sc.Kind == "DaemonSet" {
		old := &kruiseappsv1alpha1.DaemonSet{}
		if !w.Get(old, sc.ns(), AppName) {
			return fmt.Errorf("workload gone")
		}
		upd := old.DeepCopy()
		upd.Spec.Template.Spec.Containers[0].Image = image
		adm, err := w.AdmitWorkloadUpdate(old, upd)
		if err != nil {
			return err
		}
		return w.Raw.Update(ctx, adm)
	}
	return fmt.Errorf("kind %s not supported", sc.Kind)
}

// UserApprove is what `kubectl-kruise rollout approve` sends: a status patch currentStepState=StepReady.
func (w *World) UserApprove(sc *Scenario) error {
	ro := &rolloutsv1beta1.Rollout{}
	if !w.Get(ro, sc.ns(), AppName) {
		return fmt.Errorf("rollout gone")
	}
	body := `{"status":{"canaryStatus":{"currentStepState":"StepReady"}}}`
	if ro.Spec.Strategy.BlueGreen != nil {
		body = `{"status":{"blueGreenStatus":{"currentStepState":"StepReady"}}}`
	}
	return w.Raw.Status().Patch(context.TODO(), ro, client.RawPatch("application/merge-patch+json", []byte(body)))
}
