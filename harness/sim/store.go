// Package sim is the simulated cluster that the explicit-state model checker (clustermc) explores: an
// API-server shim (this file), the real controllers wired through the repository's own setup code
// (manager.go), reference models of the native workload controllers (env_*.go), and the explorer
// (explore.go). Every transition of the explored graph is one call of real repository code or one
// unit step of an environment model.
package sim

import (
	"fmt"
	"reflect"
	"sort"
	"strings"

	apiequality "k8s.io/apimachinery/pkg/api/equality"
	apierrors "k8s.io/apimachinery/pkg/api/errors"
	"k8s.io/apimachinery/pkg/api/meta"
	metav1 "k8s.io/apimachinery/pkg/apis/meta/v1"
	"k8s.io/apimachinery/pkg/apis/meta/v1/unstructured"
	"k8s.io/apimachinery/pkg/runtime"
	"k8s.io/apimachinery/pkg/runtime/schema"
	"k8s.io/apimachinery/pkg/types"
	"k8s.io/apimachinery/pkg/watch"
	clienttesting "k8s.io/client-go/testing"
)

// ObjKey identifies an object in the store.
type ObjKey struct {
	GVR       schema.GroupVersionResource
	Namespace string
	Name      string
}

func (k ObjKey) String() string {
	return k.GVR.Resource + "." + k.GVR.Group + "/" + k.Namespace + "/" + k.Name
}

// Write is one entry of the write log.
type Write struct {
	Seq    int
	Actor  string // R, B, T, D, env, user, gc
	Verb   string // create, update, delete
	Status bool   // written through the status subresource
	Key    ObjKey
	Before runtime.Object // nil for create
	After  runtime.Object // nil for delete
	Now    int64          // virtual time (unix seconds)
}

// Store implements k8s.io/client-go/testing.ObjectTracker with exactly the API-server semantics the
// controllers rely on: generation bumps on spec changes, status-subresource separation, immutable
// uid/creationTimestamp, deterministic uids. Objects held in the map are immutable (deep-copied on the way
// in and out), so a snapshot is a shallow copy of the map.
type Store struct {
	scheme *runtime.Scheme
	objs   map[ObjKey]runtime.Object
	uidSeq int
	seq    int

	// per-transition context, set by the engine
	Actor       string
	StatusWrite bool
	Log         []Write
	// PostWrite is called after every successful write with the live store (every crash prefix).
	PostWrite func(w *Write)
	// Clock returns the virtual time.
	Clock func() metav1.Time
}

var _ clienttesting.ObjectTracker = &Store{}

func NewStore(scheme *runtime.Scheme) *Store {
	return &Store{scheme: scheme, objs: map[ObjKey]runtime.Object{}}
}

// StoreSnapshot is the restorable content of a Store.
type StoreSnapshot struct {
	objs   map[ObjKey]runtime.Object
	uidSeq int
	seq    int
}

func (s *Store) Snapshot() StoreSnapshot {
	m := make(map[ObjKey]runtime.Object, len(s.objs))
	for k, v := range s.objs {
		m[k] = v
	}
	return StoreSnapshot{objs: m, uidSeq: s.uidSeq, seq: s.seq}
}

func (s *Store) Restore(sn StoreSnapshot) {
	m := make(map[ObjKey]runtime.Object, len(sn.objs))
	for k, v := range sn.objs {
		m[k] = v
	}
	s.objs, s.uidSeq, s.seq = m, sn.uidSeq, sn.seq
	s.Log = nil
}

// Keys returns all keys in canonical order.
func (s *Store) Keys() []ObjKey {
	keys := make([]ObjKey, 0, len(s.objs))
	for k := range s.objs {
		keys = append(keys, k)
	}
	sort.Slice(keys, func(i, j int) bool { return keys[i].String() < keys[j].String() })
	return keys
}

// Peek returns the stored object WITHOUT copying; callers must not modify it.
func (s *Store) Peek(k ObjKey) runtime.Object { return s.objs[k] }

// PeekAll returns stored objects of one resource (no copy), sorted by namespace/name.
func (s *Store) PeekAll(resource string) []runtime.Object {
	var keys []ObjKey
	for k := range s.objs {
		if k.GVR.Resource == resource {
			keys = append(keys, k)
		}
	}
	sort.Slice(keys, func(i, j int) bool { return keys[i].String() < keys[j].String() })
	out := make([]runtime.Object, 0, len(keys))
	for _, k := range keys {
		out = append(out, s.objs[k])
	}
	return out
}

func (s *Store) gvrOf(obj runtime.Object) (schema.GroupVersionResource, error) {
	gvk := obj.GetObjectKind().GroupVersionKind()
	if gvk.Empty() {
		gvks, _, err := s.scheme.ObjectKinds(obj)
		if err != nil || len(gvks) == 0 {
			return schema.GroupVersionResource{}, fmt.Errorf("no kind for %T", obj)
		}
		gvk = gvks[0]
	}
	gvr, _ := meta.UnsafeGuessKindToResource(gvk)
	return gvr, nil
}

func (s *Store) Add(obj runtime.Object) error {
	if meta.IsListType(obj) {
		objs, err := meta.ExtractList(obj)
		if err != nil {
			return err
		}
		for _, o := range objs {
			if err := s.Add(o); err != nil {
				return err
			}
		}
		return nil
	}
	gvr, err := s.gvrOf(obj)
	if err != nil {
		return err
	}
	acc, err := meta.Accessor(obj)
	if err != nil {
		return err
	}
	obj = obj.DeepCopyObject()
	acc, _ = meta.Accessor(obj)
	s.fillNew(acc)
	s.objs[ObjKey{gvr, acc.GetNamespace(), acc.GetName()}] = obj
	return nil
}

func (s *Store) fillNew(acc metav1.Object) {
	if acc.GetUID() == "" {
		s.uidSeq++
		acc.SetUID(types.UID(fmt.Sprintf("uid-%04d", s.uidSeq)))
	}
	if ct := acc.GetCreationTimestamp(); ct.IsZero() && s.Clock != nil {
		t := s.Clock()
		if s.Actor == "init" {
			// the scenario's pre-existing objects were created long ago, one after the other (the
			// repository sorts ReplicaSets / Deployments by creation time; ties would be arbitrary)
			t = metav1.Unix(t.Unix()-3600+int64(s.uidSeq), 0)
		}
		acc.SetCreationTimestamp(t)
	}
	if acc.GetGeneration() == 0 {
		acc.SetGeneration(1)
	}
	if acc.GetResourceVersion() == "" {
		acc.SetResourceVersion("1")
	}
}

func (s *Store) Get(gvr schema.GroupVersionResource, ns, name string) (runtime.Object, error) {
	o, ok := s.objs[ObjKey{gvr, ns, name}]
	if !ok {
		return nil, apierrors.NewNotFound(gvr.GroupResource(), name)
	}
	return o.DeepCopyObject(), nil
}

func (s *Store) Create(gvr schema.GroupVersionResource, obj runtime.Object, ns string) error {
	acc, err := meta.Accessor(obj)
	if err != nil {
		return err
	}
	k := ObjKey{gvr, ns, acc.GetName()}
	if _, ok := s.objs[k]; ok {
		return apierrors.NewAlreadyExists(gvr.GroupResource(), acc.GetName())
	}
	// the caller's object receives the server-assigned fields, as with a real client
	acc.SetNamespace(ns)
	s.fillNew(acc)
	stored := obj.DeepCopyObject()
	s.objs[k] = stored
	s.record("create", k, nil, stored)
	return nil
}

// specOf returns the part of the object whose change bumps metadata.generation.
func specOf(obj runtime.Object) interface{} {
	if u, ok := obj.(*unstructured.Unstructured); ok {
		return u.Object["spec"]
	}
	v := reflect.ValueOf(obj)
	if v.Kind() == reflect.Ptr {
		v = v.Elem()
	}
	f := v.FieldByName("Spec")
	if !f.IsValid() {
		return nil
	}
	return f.Interface()
}

func hasStatus(obj runtime.Object) bool {
	if u, ok := obj.(*unstructured.Unstructured); ok {
		_, has := u.Object["status"]
		return has
	}
	v := reflect.ValueOf(obj)
	if v.Kind() == reflect.Ptr {
		v = v.Elem()
	}
	return v.FieldByName("Status").IsValid()
}

// copyStatus sets dst.status = src.status.
func copyStatus(dst, src runtime.Object) {
	if du, ok := dst.(*unstructured.Unstructured); ok {
		if su, ok := src.(*unstructured.Unstructured); ok {
			if st, has := su.Object["status"]; has {
				du.Object["status"] = runtime.DeepCopyJSONValue(st)
			} else {
				delete(du.Object, "status")
			}
		}
		return
	}
	dv, sv := reflect.ValueOf(dst).Elem(), reflect.ValueOf(src).Elem()
	df, sf := dv.FieldByName("Status"), sv.FieldByName("Status")
	if df.IsValid() && sf.IsValid() && df.CanSet() {
		df.Set(sf)
	}
}

// statusSubresourceKinds: resources whose status is a separate subresource on a real API server.
func statusSubresource(gvr schema.GroupVersionResource) bool {
	switch gvr.Resource {
	case "rollouts", "batchreleases", "trafficroutings", "deployments", "replicasets", "statefulsets", "daemonsets",
		"clonesets", "pods", "services", "ingresses", "httproutes", "horizontalpodautoscalers", "rollouthistories":
		return true
	}
	return false
}

func (s *Store) Update(gvr schema.GroupVersionResource, obj runtime.Object, ns string) error {
	acc, err := meta.Accessor(obj)
	if err != nil {
		return err
	}
	k := ObjKey{gvr, ns, acc.GetName()}
	old, ok := s.objs[k]
	if !ok {
		return apierrors.NewNotFound(gvr.GroupResource(), acc.GetName())
	}
	oldAcc, _ := meta.Accessor(old)
	var stored runtime.Object
	if s.StatusWrite && statusSubresource(gvr) && hasStatus(old) {
		// status subresource: only .status (and resourceVersion) change
		stored = old.DeepCopyObject()
		copyStatus(stored, obj)
		sa, _ := meta.Accessor(stored)
		sa.SetResourceVersion(acc.GetResourceVersion())
	} else {
		stored = obj.DeepCopyObject()
		sa, _ := meta.Accessor(stored)
		if statusSubresource(gvr) && hasStatus(old) && s.Actor != "env" && s.Actor != "init" {
			// main resource: .status is ignored
			copyStatus(stored, old)
		}
		sa.SetUID(oldAcc.GetUID())
		sa.SetCreationTimestamp(oldAcc.GetCreationTimestamp())
		if sa.GetDeletionTimestamp() == nil && oldAcc.GetDeletionTimestamp() != nil {
			sa.SetDeletionTimestamp(oldAcc.GetDeletionTimestamp())
		}
		gen := oldAcc.GetGeneration()
		if !apiequality.Semantic.DeepEqual(specOf(old), specOf(stored)) {
			gen++
		}
		if _, isU := stored.(*unstructured.Unstructured); isU && specOf(old) == nil {
			gen = oldAcc.GetGeneration()
		}
		sa.SetGeneration(gen)
	}
	// a no-op update changes nothing on a real API server (same resourceVersion, no watch event)
	if sameIgnoringRV(old, stored) {
		sa, _ := meta.Accessor(stored)
		acc.SetResourceVersion(oldAcc.GetResourceVersion())
		_ = sa
		return nil
	}
	s.objs[k] = stored
	s.record("update", k, old, stored)
	return nil
}

func sameIgnoringRV(a, b runtime.Object) bool {
	aa, _ := meta.Accessor(a)
	ba, _ := meta.Accessor(b)
	if aa.GetResourceVersion() == ba.GetResourceVersion() {
		return apiequality.Semantic.DeepEqual(a, b)
	}
	c := b.DeepCopyObject()
	ca, _ := meta.Accessor(c)
	ca.SetResourceVersion(aa.GetResourceVersion())
	return apiequality.Semantic.DeepEqual(a, c)
}

func (s *Store) Delete(gvr schema.GroupVersionResource, ns, name string) error {
	k := ObjKey{gvr, ns, name}
	old, ok := s.objs[k]
	if !ok {
		return apierrors.NewNotFound(gvr.GroupResource(), name)
	}
	delete(s.objs, k)
	s.record("delete", k, old, nil)
	return nil
}

func (s *Store) List(gvr schema.GroupVersionResource, gvk schema.GroupVersionKind, ns string) (runtime.Object, error) {
	listGVK := gvk
	listGVK.Kind = gvk.Kind + "List"
	var list runtime.Object
	if s.scheme.Recognizes(listGVK) {
		l, err := s.scheme.New(listGVK)
		if err != nil {
			return nil, err
		}
		list = l
	} else {
		ul := &unstructured.UnstructuredList{}
		ul.SetGroupVersionKind(listGVK)
		list = ul
	}
	var keys []ObjKey
	for k := range s.objs {
		if k.GVR == gvr && (ns == "" || k.Namespace == ns) {
			keys = append(keys, k)
		}
	}
	sort.Slice(keys, func(i, j int) bool { return keys[i].String() < keys[j].String() })
	items := make([]runtime.Object, 0, len(keys))
	for _, k := range keys {
		items = append(items, s.objs[k].DeepCopyObject())
	}
	if err := meta.SetList(list, items); err != nil {
		return nil, err
	}
	return list, nil
}

func (s *Store) Watch(gvr schema.GroupVersionResource, ns string) (watch.Interface, error) {
	return watch.NewFake(), nil
}

func (s *Store) record(verb string, k ObjKey, before, after runtime.Object) {
	s.seq++
	w := Write{Seq: s.seq, Actor: s.Actor, Verb: verb, Status: s.StatusWrite, Key: k, Before: before, After: after}
	if s.Clock != nil {
		w.Now = s.Clock().Unix()
	}
	s.Log = append(s.Log, w)
	if s.PostWrite != nil {
		s.PostWrite(&s.Log[len(s.Log)-1])
	}
}

// ResourceOf maps a short kind name used by scenarios to its resource name.
func ResourceOf(kind string) string {
	switch strings.ToLower(kind) {
	case "ingress":
		return "ingresses"
	}
	return strings.ToLower(kind) + "s"
}
