package sim

import (
	"encoding/json"
	"fmt"
	"k8s.io/apimachinery/pkg/apis/meta/v1/unstructured"
	"k8s.io/apimachinery/pkg/runtime/schema"
	"sort"
	"strconv"
	"strings"

	apps "k8s.io/api/apps/v1"
	corev1 "k8s.io/api/core/v1"
	netv1 "k8s.io/api/networking/v1"
	gatewayv1beta1 "sigs.k8s.io/gateway-api/apis/v1beta1"
)

// Traffic oracle (DESIGN.md appendix D): a pure function from the network objects in the store to "which
// Service can receive which share / which matches", per the documented data-plane semantics of
// ingress-nginx canary annotations and Gateway API backendRefs weights. Not a data-plane simulation.

type TrafficState struct {
	Provider string
	// CanaryShare is the percentage of requests (not covered by a match rule) sent to the canary Service.
	CanaryShare int
	// CanaryMatches are the match predicates that send a request to the canary Service.
	CanaryMatches []string
	// RoutesToCanary: some share > 0 or some match predicate targets the canary Service.
	RoutesToCanary bool
	// GatewayObjectExists: the canary Ingress exists / the HTTPRoute references the canary Service.
	GatewayObjectExists bool
	CanarySvcExists     bool
	CanarySvcRevision   string // selector[pod-template-hash] of the canary Service
	StableSvcExists     bool
	StablePinned        string // selector[pod-template-hash] of the stable Service ("" = not pinned)
}

func (t TrafficState) String() string {
	return fmt.Sprintf("canaryShare=%d matches=%v canarySvc=%v(rev %q) stablePinned=%q", t.CanaryShare, t.CanaryMatches, t.CanarySvcExists, t.CanarySvcRevision, t.StablePinned)
}

const nginxPrefix = "nginx.ingress.kubernetes.io/"

// ReadTraffic evaluates the oracle on the current store.
func ReadTraffic(w *World, sc *Scenario) TrafficState {
	if sc.Traffic == "ingress+gateway" {
		// a composite provider: the request reaches the canary if either gateway sends it there
		a, b := *sc, *sc
		a.Traffic, b.Traffic = "ingress", "gateway"
		ta, tb := ReadTraffic(w, &a), ReadTraffic(w, &b)
		if tb.CanaryShare > ta.CanaryShare {
			ta.CanaryShare = tb.CanaryShare
		}
		ta.CanaryMatches = append(ta.CanaryMatches, tb.CanaryMatches...)
		sort.Strings(ta.CanaryMatches)
		ta.RoutesToCanary = ta.RoutesToCanary || tb.RoutesToCanary
		return ta
	}
	ts := TrafficState{Provider: sc.Traffic}
	if sc.Traffic == "" {
		return ts
	}
	ns := sc.ns()
	svc := &corev1.Service{}
	if w.Get(svc, ns, AppName) {
		ts.StableSvcExists = true
		ts.StablePinned = svc.Spec.Selector[apps.DefaultDeploymentUniqueLabelKey]
		if v := svc.Spec.Selector[apps.ControllerRevisionHashLabelKey]; v != "" {
			ts.StablePinned = shortHash(v) // StatefulSet-like workloads are pinned through controller-revision-hash
		}
	}
	csvc := &corev1.Service{}
	if w.Get(csvc, ns, AppName+"-canary") {
		ts.CanarySvcExists = true
		ts.CanarySvcRevision = csvc.Spec.Selector[apps.DefaultDeploymentUniqueLabelKey]
		if v := csvc.Spec.Selector[apps.ControllerRevisionHashLabelKey]; v != "" {
			ts.CanarySvcRevision = shortHash(v)
		}
	}
	switch sc.Traffic {
	case "ingress":
		ing := &netv1.Ingress{}
		if !w.Get(ing, ns, AppName+"-canary") {
			return ts
		}
		ts.GatewayObjectExists = true
		a := ing.Annotations
		if a[nginxPrefix+"canary"] != "true" {
			return ts
		}
		targetsCanary := false
		for _, r := range ing.Spec.Rules {
			if r.HTTP == nil {
				continue
			}
			for _, p := range r.HTTP.Paths {
				if p.Backend.Service != nil && p.Backend.Service.Name == AppName+"-canary" {
					targetsCanary = true
				}
			}
		}
		if !targetsCanary {
			return ts
		}
		if wv, ok := a[nginxPrefix+"canary-weight"]; ok {
			ts.CanaryShare, _ = strconv.Atoi(wv)
		}
		if h := a[nginxPrefix+"canary-by-header"]; h != "" {
			m := "header:" + h
			if v := a[nginxPrefix+"canary-by-header-value"]; v != "" {
				m += "=" + v
			}
			if v := a[nginxPrefix+"canary-by-header-pattern"]; v != "" {
				m += "~" + v
			}
			ts.CanaryMatches = append(ts.CanaryMatches, m)
		}
		if c := a[nginxPrefix+"canary-by-cookie"]; c != "" {
			ts.CanaryMatches = append(ts.CanaryMatches, "cookie:"+c)
		}
	case "gateway":
		rt := &gatewayv1beta1.HTTPRoute{}
		if !w.Get(rt, ns, AppName) {
			return ts
		}
		for _, rule := range rt.Spec.Rules {
			total, canary := 0, 0
			hasCanary, onlyCanary := false, true
			for _, b := range rule.BackendRefs {
				wgt := 1
				if b.Weight != nil {
					wgt = int(*b.Weight)
				}
				total += wgt
				if string(b.Name) == AppName+"-canary" {
					hasCanary = true
					canary += wgt
				} else {
					onlyCanary = false
				}
			}
			if !hasCanary {
				continue
			}
			ts.GatewayObjectExists = true
			if onlyCanary && len(rule.Matches) > 0 {
				for _, m := range rule.Matches {
					var parts []string
					for _, h := range m.Headers {
						parts = append(parts, "header:"+string(h.Name)+"="+h.Value)
					}
					sort.Strings(parts)
					ts.CanaryMatches = append(ts.CanaryMatches, strings.Join(parts, "&"))
				}
				continue
			}
			if total > 0 {
				share := canary * 100 / total
				if share > ts.CanaryShare {
					ts.CanaryShare = share
				}
			}
		}
	case "custom":
		// Istio VirtualService written by the Lua script: a route whose destinations include the canary Service
		vs := GetVirtualService(w, ns)
		if vs == nil {
			return ts
		}
		https, _, _ := unstructured.NestedSlice(vs.Object, "spec", "http")
		for _, h := range https {
			hm, _ := h.(map[string]interface{})
			routes, _, _ := unstructured.NestedSlice(hm, "route")
			total, canary := int64(0), int64(0)
			hasCanary, onlyCanary := false, true
			for _, r := range routes {
				rm, _ := r.(map[string]interface{})
				host, _, _ := unstructured.NestedString(rm, "destination", "host")
				wgt, found, _ := unstructured.NestedFieldNoCopy(rm, "weight")
				wv := int64(100)
				if found {
					switch n := wgt.(type) {
					case int64:
						wv = n
					case float64:
						wv = int64(n)
					}
				} else if len(routes) > 1 {
					wv = 0
				}
				total += wv
				if host == AppName+"-canary" {
					hasCanary = true
					canary += wv
				} else {
					onlyCanary = false
				}
			}
			if !hasCanary {
				continue
			}
			ts.GatewayObjectExists = true
			if matches, _, _ := unstructured.NestedSlice(hm, "match"); onlyCanary && len(matches) > 0 {
				for _, m := range matches {
					b, _ := json.Marshal(m)
					ts.CanaryMatches = append(ts.CanaryMatches, string(b))
				}
				continue
			}
			if total > 0 {
				if share := int(canary * 100 / total); share > ts.CanaryShare {
					ts.CanaryShare = share
				}
			}
		}
	}
	sort.Strings(ts.CanaryMatches)
	ts.RoutesToCanary = ts.CanaryShare > 0 || len(ts.CanaryMatches) > 0
	return ts
}

// GetVirtualService fetches the scenario's VirtualService (custom provider), nil if absent.
func GetVirtualService(w *World, ns string) *unstructured.Unstructured {
	for _, o := range w.Store.PeekAll("virtualservices") {
		if u, ok := o.(*unstructured.Unstructured); ok && u.GetNamespace() == ns && u.GetName() == AppName {
			return u
		}
	}
	return nil
}

var _ = schema.GroupVersionKind{}
