package sim

import (
	kruiseappsv1alpha1 "github.com/openkruise/kruise-api/apps/v1alpha1"
	"github.com/openkruise/rollouts/pkg/util"
	corev1 "k8s.io/api/core/v1"
)

// WorkloadView is the kind-independent view of the workload the monitors judge against. Counts come from
// the pods in the store (the truth), not from the workload's own status.
type WorkloadView struct {
	Kind       string
	Replicas   int    // spec.replicas
	Exposure   int    // new-revision pods the update knob currently lets the native controller run
	KnobText   string // textual form of the knob (for messages)
	Paused     bool
	Image      string // desired template image
	UpdateRev  string // revision of the desired template
	Pods       int
	Updated    int // pods on the desired template's revision
	UpdatedReady int
	Ready      int
	ByRevision map[string]int // short hash -> pods
	ReadyByRevision map[string]int
	Controlled bool // batchrelease control-info annotation present
	InProgress bool // rollouts.kruise.io/in-progressing annotation present
	Generation, ObservedGeneration int64
	Annotations map[string]string
	Labels     map[string]string
}

// ViewWorkload builds the view of the scenario's workload from the store.
func ViewWorkload(w *World, sc *Scenario) *WorkloadView {
	switch sc.Kind {
	case "CloneSet":
		cs := &kruiseappsv1alpha1.CloneSet{}
		if !w.Get(cs, sc.ns(), AppName) {
			return nil
		}
		v := &WorkloadView{Kind: "CloneSet", Replicas: int(*cs.Spec.Replicas), Paused: cs.Spec.UpdateStrategy.Paused,
			Image: cs.Spec.Template.Spec.Containers[0].Image, UpdateRev: RevisionOf(cs.Name, &cs.Spec.Template),
			Generation: cs.Generation, ObservedGeneration: cs.Status.ObservedGeneration, Annotations: cs.Annotations, Labels: cs.Labels,
			ByRevision: map[string]int{}, ReadyByRevision: map[string]int{}}
		v.Exposure = v.Replicas - ceilPartition(cs.Spec.UpdateStrategy.Partition, v.Replicas)
		if cs.Spec.UpdateStrategy.Partition != nil {
			v.KnobText = "partition=" + cs.Spec.UpdateStrategy.Partition.String()
		} else {
			v.KnobText = "partition=<nil>"
		}
		if cs.Spec.UpdateStrategy.Paused {
			v.Exposure = 0
		}
		_, v.Controlled = cs.Annotations[util.BatchReleaseControlAnnotation]
		_, v.InProgress = cs.Annotations[util.InRolloutProgressingAnnotation]
		fillPods(v, ownedPods(w, sc.ns(), cs.UID))
		return v
	}
	return nil
}

func fillPods(v *WorkloadView, pods []*corev1.Pod) {
	for _, p := range pods {
		if p.DeletionTimestamp != nil {
			continue
		}
		v.Pods++
		h := shortHash(podRev(p))
		v.ByRevision[h]++
		ready := isPodReady(p)
		if ready {
			v.Ready++
			v.ReadyByRevision[h]++
		}
		if podRev(p) == v.UpdateRev {
			v.Updated++
			if ready {
				v.UpdatedReady++
			}
		}
	}
}

// exposureOf computes the exposure the knob of a stored workload object allows (same rule as ViewWorkload).
func exposureOf(sc *Scenario, obj interface{}) int {
	switch o := obj.(type) {
	case *kruiseappsv1alpha1.CloneSet:
		if o.Spec.UpdateStrategy.Paused {
			return 0
		}
		r := int(*o.Spec.Replicas)
		return r - ceilPartition(o.Spec.UpdateStrategy.Partition, r)
	}
	return 0
}
