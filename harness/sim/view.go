package sim

import (
	"fmt"

	kruiseappsv1alpha1 "github.com/openkruise/kruise-api/apps/v1alpha1"
	rolloutsv1alpha1 "github.com/openkruise/rollouts/api/v1alpha1"
	deployutil "github.com/openkruise/rollouts/pkg/controller/deployment/util"
	"github.com/openkruise/rollouts/pkg/util"
	apps "k8s.io/api/apps/v1"
	corev1 "k8s.io/api/core/v1"
	"k8s.io/apimachinery/pkg/util/intstr"
)

// WorkloadView is the kind-independent view of the workload the monitors judge against. Counts come from
// the pods in the store (the truth), not from the workload's own status.
type WorkloadView struct {
	Kind                           string
	Replicas                       int    // spec.replicas
	Exposure                       int    // new-revision pods the update knob currently lets the native controller run
	KnobText                       string // textual form of the knob (for messages)
	Paused                         bool
	Image                          string // desired template image
	UpdateRev                      string // revision of the desired template
	Pods                           int
	Updated                        int // pods on the desired template's revision
	UpdatedReady                   int
	Ready                          int
	ByRevision                     map[string]int // short hash -> pods
	ReadyByRevision                map[string]int
	MaxUnavailable                 int  // what the workload's own strategy tolerates as unavailable
	CanaryPods, CanaryPodsReady    int  // pods of an extra canary Deployment (canary style)
	Controlled                     bool // batchrelease control-info annotation present
	InProgress                     bool // rollouts.kruise.io/in-progressing annotation present
	Generation, ObservedGeneration int64
	Annotations                    map[string]string
	Labels                         map[string]string
}

// ViewWorkload builds the view of the scenario's workload from the store.
func ViewWorkload(w *World, sc *Scenario) *WorkloadView {
	switch sc.Kind {
	case "CloneSet":
		cs := &kruiseappsv1alpha1.CloneSet{}
		if !w.Get(cs, sc.ns(), AppName) {
			return nil
		}
		v := &WorkloadView{Kind: "CloneSet", Replicas: int(*cs.Spec.Replicas), Paused: cs.Spec.UpdateStrategy.Paused,
			Image: cs.Spec.Template.Spec.Containers[0].Image, UpdateRev: RevisionOf(cs.Name, &cs.Spec.Template),
			Generation: cs.Generation, ObservedGeneration: cs.Status.ObservedGeneration, Annotations: cs.Annotations, Labels: cs.Labels,
			ByRevision: map[string]int{}, ReadyByRevision: map[string]int{}}
		v.Exposure = exposureOf(sc, cs)
		if cs.Spec.UpdateStrategy.Partition != nil {
			v.KnobText = "partition=" + cs.Spec.UpdateStrategy.Partition.String()
		} else {
			v.KnobText = "partition=<nil>"
		}
		if sc.Style == "bluegreen" {
			ms := "<nil>"
			if cs.Spec.UpdateStrategy.MaxSurge != nil {
				ms = cs.Spec.UpdateStrategy.MaxSurge.String()
			}
			v.KnobText += " maxSurge=" + ms
		}
		_, v.Controlled = cs.Annotations[util.BatchReleaseControlAnnotation]
		_, v.InProgress = cs.Annotations[util.InRolloutProgressingAnnotation]
		fillPods(v, ownedPods(w, sc.ns(), cs.UID))
		return v
	case "StatefulSet":
		st := &apps.StatefulSet{}
		if !w.Get(st, sc.ns(), AppName) {
			return nil
		}
		v := &WorkloadView{Kind: "StatefulSet", Replicas: int(*st.Spec.Replicas), Image: st.Spec.Template.Spec.Containers[0].Image,
			UpdateRev: RevisionOf(st.Name, &st.Spec.Template), Generation: st.Generation, ObservedGeneration: st.Status.ObservedGeneration,
			Annotations: st.Annotations, Labels: st.Labels, ByRevision: map[string]int{}, ReadyByRevision: map[string]int{}}
		v.Exposure = exposureOf(sc, st)
		v.KnobText = fmt.Sprintf("partition=%d", stsPartition(st))
		_, v.Controlled = st.Annotations[util.BatchReleaseControlAnnotation]
		_, v.InProgress = st.Annotations[util.InRolloutProgressingAnnotation]
		fillPods(v, ownedPods(w, sc.ns(), st.UID))
		return v
	case "DaemonSet":
		ds := &kruiseappsv1alpha1.DaemonSet{}
		if !w.Get(ds, sc.ns(), AppName) {
			return nil
		}
		v := &WorkloadView{Kind: "DaemonSet", Replicas: int(sc.Replicas), Image: ds.Spec.Template.Spec.Containers[0].Image,
			UpdateRev: RevisionOf(ds.Name, &ds.Spec.Template), Generation: ds.Generation, ObservedGeneration: ds.Status.ObservedGeneration,
			Annotations: ds.Annotations, Labels: ds.Labels, ByRevision: map[string]int{}, ReadyByRevision: map[string]int{}}
		v.Exposure = exposureOf(sc, ds)
		v.KnobText = fmt.Sprintf("partition=%d paused=%v", dsPartition(ds), dsPaused(ds))
		_, v.Controlled = ds.Annotations[util.BatchReleaseControlAnnotation]
		_, v.InProgress = ds.Annotations[util.InRolloutProgressingAnnotation]
		fillPods(v, ownedPods(w, sc.ns(), ds.UID))
		return v
	case "Deployment":
		d := &apps.Deployment{}
		if !w.Get(d, sc.ns(), AppName) {
			return nil
		}
		h := util.ComputeHash(&d.Spec.Template, nil)
		v := &WorkloadView{Kind: "Deployment", Replicas: int(*d.Spec.Replicas), Paused: d.Spec.Paused,
			Image: d.Spec.Template.Spec.Containers[0].Image, UpdateRev: d.Name + "-" + h,
			Generation: d.Generation, ObservedGeneration: d.Status.ObservedGeneration, Annotations: d.Annotations, Labels: d.Labels,
			ByRevision: map[string]int{}, ReadyByRevision: map[string]int{}}
		_, v.Controlled = d.Annotations[util.BatchReleaseControlAnnotation]
		_, v.InProgress = d.Annotations[util.InRolloutProgressingAnnotation]
		v.MaxUnavailable = int(util.DeploymentMaxUnavailable(d))
		v.Exposure, v.KnobText = deploymentExposure(w, sc, d)
		// pods of the workload itself (through its ReplicaSets); pods of an extra canary Deployment are counted
		// in ByRevision (they serve traffic) but not as "updated pods of the workload"
		ownRS := map[string]bool{}
		for _, o := range w.Store.PeekAll("replicasets") {
			rs := o.(*apps.ReplicaSet)
			for _, ref := range rs.OwnerReferences {
				if ref.UID == d.UID {
					ownRS[string(rs.UID)] = true
				}
			}
		}
		var pods, extra []*corev1.Pod
		for _, o := range w.Store.PeekAll("pods") {
			p := o.(*corev1.Pod)
			if p.Namespace != sc.ns() || p.Labels["app"] != AppName {
				continue
			}
			own := false
			for _, ref := range p.OwnerReferences {
				if ownRS[string(ref.UID)] {
					own = true
				}
			}
			if own {
				pods = append(pods, p)
			} else {
				extra = append(extra, p)
			}
		}
		fillPods(v, pods)
		for _, p := range extra {
			if p.DeletionTimestamp != nil {
				continue
			}
			h := shortHash(podRevOf(p))
			v.ByRevision[h]++
			v.CanaryPods++
			if isPodReady(p) {
				v.ReadyByRevision[h]++
				v.CanaryPodsReady++
			}
		}
		return v
	}
	return nil
}

// deploymentExposure: new-revision pods the current knobs let the native / advanced controller run.
func deploymentExposure(w *World, sc *Scenario, d *apps.Deployment) (int, string) {
	replicas := int(*d.Spec.Replicas)
	switch sc.Style {
	case "canary":
		// extra canary Deployment(s): their spec.replicas
		n, names := 0, ""
		for _, o := range w.Store.PeekAll("deployments") {
			c := o.(*apps.Deployment)
			if c.Namespace == d.Namespace && c.Labels[util.CanaryDeploymentLabel] == d.Name && c.DeletionTimestamp == nil {
				n += int(*c.Spec.Replicas)
				names += c.Name + " "
			}
		}
		if !d.Spec.Paused {
			return replicas, "stable Deployment not paused"
		}
		return n, fmt.Sprintf("canary Deployment replicas=%d (%s)", n, names)
	case "partition":
		if _, ok := d.Annotations[rolloutsv1alpha1.DeploymentStrategyAnnotation]; !ok {
			if d.Spec.Paused {
				return 0, "paused"
			}
			return replicas, "not paused, no strategy annotation"
		}
		st := util.GetDeploymentStrategy(d)
		if st.Paused {
			return 0, "strategy paused"
		}
		lim := deployutil.NewRSReplicasLimit(st.Partition, d)
		return int(lim), "strategy partition=" + st.Partition.String()
	case "bluegreen":
		if d.Spec.Paused {
			return 0, "paused"
		}
		ms := 0
		if d.Spec.Strategy.RollingUpdate != nil && d.Spec.Strategy.RollingUpdate.MaxSurge != nil {
			ms, _ = intstr.GetScaledValueFromIntOrPercent(d.Spec.Strategy.RollingUpdate.MaxSurge, replicas, true)
			if ms > replicas {
				ms = replicas // the new ReplicaSet never grows beyond spec.replicas, whatever the surge allows
			}
			return ms, "maxSurge=" + d.Spec.Strategy.RollingUpdate.MaxSurge.String()
		}
		return replicas, "no maxSurge"
	}
	return 0, ""
}

func fillPods(v *WorkloadView, pods []*corev1.Pod) {
	for _, p := range pods {
		if p.DeletionTimestamp != nil {
			continue
		}
		v.Pods++
		h := shortHash(podRevOf(p))
		v.ByRevision[h]++
		ready := isPodReady(p)
		if ready {
			v.Ready++
			v.ReadyByRevision[h]++
		}
		if shortHash(podRevOf(p)) == shortHash(v.UpdateRev) {
			v.Updated++
			if ready {
				v.UpdatedReady++
			}
		}
	}
}

// exposureOf computes the exposure the knob of a stored workload object allows (same rule as ViewWorkload).
func exposureOf(sc *Scenario, obj interface{}) int {
	switch o := obj.(type) {
	case *kruiseappsv1alpha1.CloneSet:
		if o.Spec.UpdateStrategy.Paused {
			return 0
		}
		r := int(*o.Spec.Replicas)
		e := r - ceilPartition(o.Spec.UpdateStrategy.Partition, r)
		if sc.Style == "bluegreen" && controlledOf(o) {
			// blue-green: new-revision pods are the surge pods (no pod is updated in place while the release holds)
			ms := 0
			if o.Spec.UpdateStrategy.MaxSurge != nil {
				ms, _ = intstr.GetScaledValueFromIntOrPercent(o.Spec.UpdateStrategy.MaxSurge, r, true)
			}
			if ms < e {
				e = ms
			}
		}
		return e
	case *apps.Deployment:
		return exposureOfDeployment(sc, o)
	case *apps.StatefulSet:
		r := int(*o.Spec.Replicas)
		e := r - stsPartition(o)
		if e < 0 {
			e = 0
		}
		return e
	case *kruiseappsv1alpha1.DaemonSet:
		if dsPaused(o) {
			return 0
		}
		e := int(sc.Replicas) - dsPartition(o)
		if e < 0 {
			e = 0
		}
		return e
	}
	return 0
}

// controlledOf tells whether a stored workload object carries the BatchRelease control-info annotation.
func controlledOf(obj interface{}) bool {
	type annotated interface{ GetAnnotations() map[string]string }
	if a, ok := obj.(annotated); ok {
		_, has := a.GetAnnotations()[util.BatchReleaseControlAnnotation]
		return has
	}
	return false
}

// podRevOf: CloneSet pods carry controller-revision-hash, ReplicaSet pods only pod-template-hash.
func podRevOf(p *corev1.Pod) string {
	if r := podRev(p); r != "" {
		return r
	}
	return "x-" + p.Labels[apps.DefaultDeploymentUniqueLabelKey]
}

// exposureOfDeployment is used by exposureOf for stored Deployment objects (partition / blue-green knobs live
// on the object itself; the canary style's knob is the canary Deployment's replicas).
func exposureOfDeployment(sc *Scenario, d *apps.Deployment) int {
	replicas := int(*d.Spec.Replicas)
	switch sc.Style {
	case "canary":
		if d.Labels[util.CanaryDeploymentLabel] != "" {
			return replicas
		}
		return -1
	case "partition":
		if _, ok := d.Annotations[rolloutsv1alpha1.DeploymentStrategyAnnotation]; !ok {
			if d.Spec.Paused {
				return 0
			}
			return replicas
		}
		st := util.GetDeploymentStrategy(d)
		if st.Paused {
			return 0
		}
		return int(deployutil.NewRSReplicasLimit(st.Partition, d))
	case "bluegreen":
		if d.Spec.Paused {
			return 0
		}
		if d.Spec.Strategy.RollingUpdate != nil && d.Spec.Strategy.RollingUpdate.MaxSurge != nil {
			ms, _ := intstr.GetScaledValueFromIntOrPercent(d.Spec.Strategy.RollingUpdate.MaxSurge, replicas, true)
			if ms > replicas {
				ms = replicas // the new ReplicaSet never grows beyond spec.replicas, whatever the surge allows
			}
			return ms
		}
		return replicas
	}
	return 0
}
