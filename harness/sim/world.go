package sim

import (
	"context"
	"fmt"
	"sync"
	"time"

	kruiseappsv1alpha1 "github.com/openkruise/kruise-api/apps/v1alpha1"
	kruiseappsv1beta1 "github.com/openkruise/kruise-api/apps/v1beta1"
	rolloutsv1alpha1 "github.com/openkruise/rollouts/api/v1alpha1"
	rolloutsv1beta1 "github.com/openkruise/rollouts/api/v1beta1"
	"github.com/openkruise/rollouts/pkg/controller/batchrelease"
	"github.com/openkruise/rollouts/pkg/controller/rollout"
	trctl "github.com/openkruise/rollouts/pkg/controller/trafficrouting"
	expectations "github.com/openkruise/rollouts/pkg/util/expectation"
	"github.com/openkruise/rollouts/pkg/util/grace"
	"k8s.io/apimachinery/pkg/api/meta"
	metav1 "k8s.io/apimachinery/pkg/apis/meta/v1"
	"k8s.io/apimachinery/pkg/runtime"
	"k8s.io/apimachinery/pkg/runtime/schema"
	clientgoscheme "k8s.io/client-go/kubernetes/scheme"
	"sigs.k8s.io/controller-runtime/pkg/client"
	"sigs.k8s.io/controller-runtime/pkg/client/fake"
	"sigs.k8s.io/controller-runtime/pkg/controller"
	"sigs.k8s.io/controller-runtime/pkg/manager"
	"sigs.k8s.io/controller-runtime/pkg/reconcile"
	gatewayv1beta1 "sigs.k8s.io/gateway-api/apis/v1beta1"

	"verifharness/lib"
)

// T0 is the virtual epoch.
const T0 int64 = 1_700_000_000

var (
	clockMu  sync.Mutex
	clockNow int64 = T0
)

func init() {
	// the repository runs Lua scripts under a REAL one-second timer; a worker starved of CPU for a second inside a
	// script run would see it fail. Not a behaviour this engine studies: timers cannot fire during a run.
	time.VerifTimerStretch = 100000
	time.VerifNowHook = func() time.Time {
		clockMu.Lock()
		defer clockMu.Unlock()
		return time.Unix(clockNow, 0)
	}
}

func setClock(t int64) { clockMu.Lock(); clockNow = t; clockMu.Unlock() }
func getClock() int64  { clockMu.Lock(); defer clockMu.Unlock(); return clockNow }

// NewScheme returns the scheme production uses (main.go) plus nothing else.
func NewScheme() *runtime.Scheme {
	s := runtime.NewScheme()
	_ = clientgoscheme.AddToScheme(s)
	_ = kruiseappsv1alpha1.AddToScheme(s)
	_ = kruiseappsv1beta1.AddToScheme(s)
	_ = rolloutsv1alpha1.AddToScheme(s)
	_ = rolloutsv1beta1.AddToScheme(s)
	_ = gatewayv1beta1.AddToScheme(s)
	return s
}

// World is the whole simulated cluster plus the real controllers.
type World struct {
	// ColdStart: Settle leaves the environment models alone (scenario option ColdStart)
	ColdStart bool
	Scheme    *runtime.Scheme
	Store     *Store
	Client    *Client       // what controllers use (counted, faultable)
	Raw       client.Client // same store, no counting / faults (harness, env, handlers' readers)
	Ctls      []*Ctl
	ctlBy     map[string]*Ctl
	Env       []EnvModel
	nameSeq   int
	// FreeQueues: safety mode. Every controller may reconcile every primary object it knows at any time
	// (a sound over-approximation: informer resyncs wake level-triggered controllers spuriously anyway);
	// queue contents are then irrelevant and not part of the state key. Liveness checks use real queues.
	FreeQueues bool

	// Panics recovered from real code during the current transition.
	LastPanic *lib.Panic
}

// EnvModel is a reference model of one native workload controller (not repository code).
type EnvModel interface {
	Name() string
	// Steps returns the labels of the unit steps enabled in the current store, canonical order.
	Steps(w *World) []string
	// Do performs one unit step.
	Do(w *World, label string) error
}

// NewWorld builds the store, runs the repository's real controller setup code against the fake manager
// and returns the wired world. It must be called once per process (the setup code has package-level state).
func NewWorld() (*World, error) {
	w := &World{Scheme: NewScheme(), ctlBy: map[string]*Ctl{}}
	w.Store = NewStore(w.Scheme)
	w.Store.Clock = func() metav1.Time { return metav1.Unix(getClock(), 0) }
	inner := fake.NewClientBuilder().WithScheme(w.Scheme).WithObjectTracker(w.Store).Build()
	w.Raw = &Client{inner: inner, store: w.Store, nameSeq: &w.nameSeq}
	w.Client = &Client{inner: inner, store: w.Store, nameSeq: &w.nameSeq}
	mgr := &fakeManager{scheme: w.Scheme, client: w.Client, cache: readerCache{Reader: inner}, recorder: drainRecorder{}}

	controller.VerifNewHook = func(name string, m manager.Manager, options controller.Options) (controller.Controller, error) {
		c := &Ctl{Name: name, Reconciler: options.Reconciler, Queue: newQueue(getClock), scheme: w.Scheme, cache: mgr.cache}
		switch name {
		case "rollout-controller":
			c.Short = "R"
		case "batchrelease-controller":
			c.Short = "B"
		case "trafficrouting-controller":
			c.Short = "T"
		case "advanced-deployment-controller":
			c.Short = "D"
		default:
			c.Short = name
		}
		w.Ctls = append(w.Ctls, c)
		w.ctlBy[c.Short] = c
		return c, nil
	}
	defer func() { controller.VerifNewHook = nil }()

	if err := (&rollout.RolloutReconciler{Client: w.Client, Scheme: w.Scheme, Recorder: drainRecorder{}}).SetupWithManager(mgr); err != nil {
		return nil, fmt.Errorf("rollout setup: %w", err)
	}
	if err := batchrelease.Add(mgr); err != nil {
		return nil, fmt.Errorf("batchrelease setup: %w", err)
	}
	if err := (&trctl.TrafficRoutingReconciler{Client: w.Client, Scheme: w.Scheme, Recorder: drainRecorder{}}).SetupWithManager(mgr); err != nil {
		return nil, fmt.Errorf("trafficrouting setup: %w", err)
	}
	if err := setupDeploymentController(w, mgr); err != nil {
		return nil, err
	}
	return w, nil
}

func (w *World) Ctl(short string) *Ctl { return w.ctlBy[short] }

// gvkOf returns the kind of a stored object.
func (w *World) gvkOf(obj runtime.Object) schema.GroupVersionKind {
	gvk := obj.GetObjectKind().GroupVersionKind()
	if !gvk.Empty() {
		return gvk
	}
	gvks, _, err := w.Scheme.ObjectKinds(obj)
	if err != nil || len(gvks) == 0 {
		return schema.GroupVersionKind{}
	}
	return gvks[0]
}

// Dispatch turns the write log of the finished transition into watch events for every controller, in
// write order, through the real predicates and handlers; then clears the log.
func (w *World) Dispatch() []Write {
	log := w.Store.Log
	w.Store.Log = nil
	for i := range log {
		wr := &log[i]
		obj := wr.After
		if obj == nil {
			obj = wr.Before
		}
		gvk := w.gvkOf(obj)
		for _, c := range w.Ctls {
			if p := lib.Catch(func() { c.deliver(wr, gvk) }); p != nil {
				pp := *p
				pp.Site = "event-handler/" + pp.Site
				w.LastPanic = &pp
			}
		}
	}
	return log
}

// ReconcileResult is what one reconcile transition did.
type ReconcileResult struct {
	Err    error
	Result reconcile.Result
	Panic  *lib.Panic
	Calls  int
	Writes int
	Kinds  []bool
	Fired  bool
}

// Reconcile runs one real Reconcile of controller c for key k under fault f, applies controller-runtime's
// requeue rules to the model queue and dispatches the resulting watch events.
func (w *World) Reconcile(c *Ctl, k reconcile.Request, f Fault) (ReconcileResult, []Write) {
	c.Queue.pop(k)
	w.Store.Actor = c.Short
	w.Client.BeginTransition(f)
	w.LastPanic = nil
	var res reconcile.Result
	var err error
	p := lib.Catch(func() { res, err = c.Reconciler.Reconcile(context.TODO(), k) })
	rr := ReconcileResult{Err: err, Result: res, Panic: p, Calls: w.Client.Calls, Writes: w.Client.Writes, Fired: w.Client.Fired,
		Kinds: append([]bool(nil), w.Client.CallKinds...)}
	crashed := w.Client.Crashed()
	w.Client.BeginTransition(Fault{})
	w.Store.Actor = ""
	if crashed {
		log := w.Crash()
		return rr, log
	}
	switch {
	case p != nil:
		// controller-runtime (RecoverPanic off) would crash the process; the explorer reports it. Treat as error.
		c.Queue.addAfter(k, time.Second)
	case err != nil:
		c.Queue.addAfter(k, time.Second)
	case res.RequeueAfter > 0:
		c.Queue.addAfter(k, res.RequeueAfter)
	case res.Requeue:
		c.Queue.addAfter(k, time.Second)
	}
	log := w.Dispatch()
	if w.LastPanic != nil && rr.Panic == nil {
		rr.Panic = w.LastPanic
	}
	return rr, log
}

// Crash models a controller-process restart: in-memory expectations are lost, the informers resync (every
// primary object of every controller is enqueued). Pending writes of the transition are kept in the store;
// their events are subsumed by the resync.
func (w *World) Crash() []Write {
	log := w.Store.Log
	w.Store.Log = nil
	grace.VerifRestore(nil)
	expectations.VerifRestore(nil)
	for _, c := range w.Ctls {
		c.Queue.Immediate = nil
		c.Queue.Delayed = map[reconcile.Request]int64{}
	}
	w.Resync()
	return log
}

// Resync enqueues what an informer start would: a create event for every stored object.
func (w *World) Resync() {
	for _, k := range w.Store.Keys() {
		obj := w.Store.Peek(k)
		wr := &Write{Verb: "create", Key: k, After: obj}
		gvk := w.gvkOf(obj)
		for _, c := range w.Ctls {
			c.deliver(wr, gvk)
		}
	}
}

// ---------------------------------------------------------------------------------------------
// Snapshot / restore of the complete state
// ---------------------------------------------------------------------------------------------

type Snapshot struct {
	store   StoreSnapshot
	queues  []*Queue
	grace   map[string]map[grace.Action]time.Time
	expect  map[string]expectations.VerifRecord
	clock   int64
	nameSeq int
	Extra   interface{} // explorer-owned (budgets, history abstractions)
}

func (w *World) Snapshot() *Snapshot {
	sn := &Snapshot{store: w.Store.Snapshot(), grace: grace.VerifSnapshot(), expect: expectations.VerifSnapshot(), clock: getClock(), nameSeq: w.nameSeq}
	for _, c := range w.Ctls {
		sn.queues = append(sn.queues, c.Queue.clone())
	}
	return sn
}

func (w *World) Restore(sn *Snapshot) {
	w.Store.Restore(sn.store)
	for i, c := range w.Ctls {
		c.Queue = sn.queues[i].clone()
	}
	grace.VerifRestore(sn.grace)
	expectations.VerifRestore(sn.expect)
	setClock(sn.clock)
	w.nameSeq = sn.nameSeq
}

// Now returns the virtual time.
func (w *World) Now() int64 { return getClock() }

// Tick advances the virtual clock by one second.
func (w *World) Tick() { setClock(getClock() + 1) }

// Get fetches a typed object from the store without counting as an API call.
func (w *World) Get(obj client.Object, ns, name string) bool {
	return w.fastGetInto(obj, ns, name)
}

// As runs f with the store's actor set (writes are attributed to actor) and dispatches events afterwards.
func (w *World) As(actor string, f func() error) ([]Write, error) {
	w.Store.Actor = actor
	err := f()
	w.Store.Actor = ""
	log := w.Dispatch()
	return log, err
}

func accessor(o runtime.Object) metav1.Object {
	a, _ := meta.Accessor(o)
	return a
}

// Reset empties the world for the next scenario (the controllers created by the real setup code stay).
func (w *World) Reset() {
	w.Store.objs = map[ObjKey]runtime.Object{}
	w.Store.uidSeq, w.Store.seq, w.Store.Log = 0, 0, nil
	w.Env = nil
	w.nameSeq = 0
	setClock(T0)
	grace.VerifRestore(nil)
	expectations.VerifRestore(nil)
	for _, c := range w.Ctls {
		c.Queue = newQueue(getClock)
	}
}
