#!/bin/bash
# Run once after a fresh restore (offline). Generates the build overlays from the installed toolchain /
# module cache and pre-builds every check binary so that the first check invocation is fast.
set -euo pipefail
cd /verif
. ./env.sh
mkdir -p .cache/bin .cache/overlay .cache/go-build evidence out
python3 tools/gen_overlay.py
cp /repo/go.sum harness/go.sum
cd harness
for b in e3 clustermc schedmc deploymc; do
  go build -tags verif -overlay "$VERIF_OVERLAY" -o /verif/.cache/bin/$b ./cmd/$b
done
echo "setup ok"
