#!/usr/bin/env python3
"""Replaces the generated seed table of DESIGN.md section 7a by seeded/TABLE.md."""
import re
p = '/verif/DESIGN.md'
s = open(p).read()
t = open('/verif/seeded/TABLE.md').read()
s2, n = re.subn(r'(<!-- SEEDTABLE-BEGIN[^>]*-->\n).*?(<!-- SEEDTABLE-END -->)', lambda m: m.group(1) + t + m.group(2), s, flags=re.S)
assert n == 1
open(p, 'w').write(s2)
