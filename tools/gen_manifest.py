#!/usr/bin/env python3
"""Writes /verif/MANIFEST.json from the table below (single source of truth for the interface)."""
import json, subprocess

ENGINES = {
 "e3": {"name": "smallscope (E3)", "path": "harness/cmd/e3", "kind_free_text": "exhaustive enumeration of a bounded structured input / operation-history domain through the real functions, compared with a reference oracle"},
 "clustermc": {"name": "clustermc (E1)", "path": "harness/cmd/clustermc", "kind_free_text": "explicit-state BFS over a simulated cluster whose transitions are calls of the real reconcilers/handlers; crash and fault actors; monitors after every write"},
 "deploymc": {"name": "deploymc (E4)", "path": "harness/cmd/deploymc", "kind_free_text": "explicit-state search over the real advanced Deployment controller composed with a ReplicaSet model"},
 "schedmc": {"name": "schedmc (E2)", "path": "harness/cmd/schedmc", "kind_free_text": "bounded-preemption schedule enumeration (CHESS-style) of real code under a cooperative scheduler"},
}

# id -> (engine, technique, level text, level note, design ref)
CHECKS = {
 "C08": ("e3", "exhaustive enumeration of (old,new) workload objects x Rollout sets as real JSON admission requests through the repository's real mutating handler chain; reference predicate + frame condition",
         "320k (quick) / 4.5M (thorough) requests over Deployment, CloneSet, Advanced DaemonSet, native/Advanced/foreign StatefulSet: template change x rollout-id pairs x replicas x paused x annotation/strategy/status shapes x ReplicaSet sets x 19 Rollout sets (none, matching, other name/kind, disabled, deleting, traffic routing, empty strategy, two rollouts), with the webhook configuration built from config/webhook: response class equals the 40-line reference predicate taken from the property text (held back + marked / re-paused / unchanged), the returned JSON patch applies to the submitted bytes and changes only allow-listed paths, no panic, no denial, no store write.",
         "Trusted: the reference predicate; cases the text does not decide (listed in the evidence assumptions) are judged on frame condition / no panic only.", "DESIGN.md §4 C08"),
 "C12": ("e3", "exhaustive enumeration of pod multisets x plans x batches through the real PatchPodBatchLabel / IsBatchReady on a fake store, applied twice (idempotence), plus reachable release histories; count / target / relabel / idempotence oracles",
         "Every pod set of up to 4 (quick) / 5 (thorough) pods over {new/old/unknown revision} x {CloneSet, ReplicaSet owner} x {live, terminating} x 12 pre-existing label shapes (current / foreign rollout-id; batch-id absent, in range, \"0\", \"-1\", \"99\", \"x\") x 17/22 plans (ints, percents, decreasing, malformed) x replicas x every current batch x {no filter, unordered, ordered} plus batch-by-batch reachable histories: labels only on live new-revision pods, count(id,i) <= max(before, increment_i), already-labelled pods untouched, second pass writes nothing, no panic, readiness does not count pods that do not belong.",
         "Trusted: fake client, the check's own BatchContext derivation (cross-checked against the real CalculateBatchContext on every (plan, replicas, batch) before enumerating).", "DESIGN.md §4 C12"),
 "C13": ("e3", "exhaustive enumeration of HTTPRoute shapes x step histories (weight / match steps, then Finalise twice) through the real gateway provider on a fake store; request-model oracle for generated canary rules; frame and restore oracles",
         "Every route built from a 12(quick)/19(thorough)-letter rule alphabet (1-3 rules: stable only, stable+foreign with/without user weights, foreign, same-name non-Service / other-group / other-namespace backends, backend-less redirect, 0-2 own matches, filters) x every step sequence up to length 2 (quick) / 3 (thorough) over weights and every ordering of path/header/query match lists, followed by Finalise: exact split, other backends untouched, generated canary rules accept only requests that satisfy one of the user's matches (finite request model), unrelated rules byte-identical, every user rule back after Finalise. Exhaustive in that domain.",
         "Trusted: the request model (paths/headers/queries/methods mentioned in the case plus one fresh value each), CRD-defaulted object shapes, the controller-runtime fake client.", "DESIGN.md §4 C13"),
 "C14": ("e3", "exhaustive enumeration of stable Ingress shapes x class scripts x step histories through the real ingress provider (real Lua scripts) on a fake store; history-independence (relational) oracle",
         "Every stable Ingress from a 9-rule alphabet (rules without http, Resource backends, stable/other Services, hosts) x annotation shapes x {nginx, aliyun-alb, higress, mse} x every step sequence up to length 3 (4 thorough) of the class's step alphabet (weights, header exact/regex, cookie, query and requestHeaderModifier for mse), then Finalise twice: canary paths == re-targeted stable-Service paths, annotations after history+step == after the step alone, stable and bystander Ingress byte-identical, Finalise deletes the canary Ingress, no panic.",
         "Trusted: controller-runtime fake client (no API validation); a Lua run cut by the VM's real-time 1 s deadline under machine load is dropped and reported (exhaustive:false), never judged.", "DESIGN.md §4 C14"),
 "C15": ("e3", "exhaustive enumeration of unstructured objects x scripts (built-in Istio + a grammar of well-behaved scripts) x strategy histories through the real custom provider; statelessness / exact-restore / fixed-point oracles",
         "Istio VirtualService/DestinationRule worlds (13-rule route alphabet, http/tcp/tls, label/annotation shapes, 1-2 refs incl. a missing one) and generic worlds (36 nested spec shapes incl. empty collections, null, 2^53+1; 6x5x4 generated scripts) x all strategy sequences up to length 3 then Finalise twice: object after history+step == after the step alone, spec/labels/annotations restored exactly, snapshot annotation gone, single stable destination split exactly (100-w, w), other hosts untouched, EnsureRoutes reaches a fixed point within 3 calls and a further call writes nothing.",
         "Trusted: fake client; empty == absent for labels/annotations; rules with their own match are observed, not judged (the script documents skipping them).", "DESIGN.md §4 C15, C07-O3"),
 "C16": ("e3", "exhaustive enumeration of all programs of a bounded Lua grammar + token/character soups + a hostile corpus, each executed by the real RunLuaScript/Encode in watchdogged worker processes; exhaustive walk of the capability surface reachable from _G; exhaustive bounded value-bridge round trip",
         "264k (quick) / 5.9M (thorough) grammar programs, 18k / 416k lexical soups, 371 hostile scripts: each returns within 3x the VM deadline with a table or an error, never a panic or worker crash; every function reachable from _G / metatables / environments is on a reviewed allow-list, file/process/env capabilities are probed functionally against canary files; every JSON-like value up to depth 2 (depth 3 over a reduced alphabet) survives obj -> Lua -> Encode modulo the two documented losses; VM state does not leak between calls.",
         "Real clock (the deadline is what is under test): verdicts 'late' are re-executed alone before being believed; the four known deadline findings are listed in known-findings.json.", "DESIGN.md §4 C16"),
 "C01": ("clustermc", "explicit-state BFS over the real Rollout + BatchRelease reconcilers composed with a CloneSet reference model; monitor after every API write",
         "All interleavings of real reconciles, workload-controller progress, clock ticks and approvals for the scenarios of the plan, plus one (quick) / two (thorough) user deviations (scale up/down, plan edits int<->percent and raised, step jumps, pause/resume) injected once per abstract control state: after every workload write of the BatchRelease controller the exposure allowed by the update knob is within the current step's plan (+1% slack) and never moves back; every batchPartition the Rollout writes is covered by its current step.",
         "Trusted: API-server shim, CloneSet reference model (Kruise partition semantics, percent rounded up); linearizable reads; other workload kinds not yet in the quick tier.", "DESIGN.md §4 C01"),
 "C02": ("clustermc", "explicit-state BFS over the real reconcilers with crash actors (between reconciles and after every write inside a reconcile); transition monitor on every persisted Rollout status write",
         "Every persisted change of the step cursor is judged: Upgrade->TrafficRouting only with a current, observed, Ready BatchRelease authorised for that step; Paused->Ready by the controller only after the duration or on a 100% last step; index changes only from StepReady or after a user request; no forward move in a reconcile that started with spec.strategy.paused. Interleavings unbounded; <=1 user deviation and <=1 crash (any write index) per path in quick.",
         "Same trusted base as C01.", "DESIGN.md §4 C02"),
 "C03": ("clustermc", "explicit-state BFS over the real reconcilers + traffic oracle (pure function from Services/Ingress annotations to canary share / matches); monitor on every network write and on every 'routed' report",
         "Every write that raises the canary share / adds a match happens only with a BatchRelease that reports the step's batch Ready (current generation); when the Rollout persists leaving StepTrafficRouting the oracle's share equals the step's traffic exactly; with traffic on step 1 the stable Service is pinned before the first knob write that lets new-revision pods be created. <=1 user deviation (jumps, plan edit, scale) per path in quick.",
         "Trusted: the traffic oracle (documented ingress-nginx canary annotation semantics), CloneSet model. Quick tier: CloneSet + nginx Ingress only.", "DESIGN.md §4 C03"),
 "C04": ("clustermc", "explicit-state BFS with the invariant evaluated on the live store after EVERY single API write (= every crash prefix), blame rule for externally induced breaks; crash actor",
         "After every write of every explored history (success, rollback, supersession, disable, delete, jump): a gateway rule that routes to the canary Service implies the Service exists and selects the revision being released; a pinned stable Service that still receives traffic has pods of that revision; the knob is not opened to all pods while the stable Service is still pinned. Only writes by the repository's controllers are charged.",
         "Same as C03.", "DESIGN.md §4 C04"),
 "C05": ("clustermc", "explicit-state BFS with exit actions (rollback, disable, delete, completion) injected once per control state; round-trip oracle at every settled terminal state",
         "At every settled state in which the rollout has ended (completed / rolled back / disabled / deleted): no BatchRelease, canary Service / Ingress / Deployment, no rollout markers on the workload, stable Service selector and Ingress equal to the user's originals, workload not paused / partition 0, every pod on the desired revision and ready.",
         "Same as C03; the baseline is captured before the release.", "DESIGN.md §4 C05"),
 "C06": ("clustermc", "explicit-state BFS with fault enumeration: for every reconcile transition, crash after every write index, API error at every call index, conflict at every write call; all safety monitors of C01-C05/C09/C11/C18 run on the disturbed paths; liveness analysis on a real-queue run with crashes",
         "<=1 disturbance per path at every position (exhaustive, not random): all safety monitors stay green, terminal states are clean (same round-trip oracle as C05), no second canary Deployment, and with real queues every disturbed path still finishes (no bottom component short of the terminal state).",
         "Same as C03; <=1 disturbance in quick, 2 in thorough.", "DESIGN.md §4 C06"),
 "C07": ("clustermc", "explicit-state BFS with REAL queue semantics (requeue-after, rate-limited requeue, watch events through the repository's real predicates and handlers) and Tarjan SCC analysis of the fair-edge graph",
         "On the complete graph of each scenario (approvals granted): every bottom strongly connected component consists of settled states (Healthy / waiting for the user), no state without a pending wake-up is short of the terminal state (missing requeue / over-strict predicate = deadlock), no cycle rewrites the store (oscillation). Provider fixed points are decided by C13-C15 (E3).",
         "Liveness assumes the healthy subset of the env models; quick: CloneSet scenarios.", "DESIGN.md §4 C07"),
 "C10": ("clustermc", "explicit-state BFS with rollback / new revision injected once per control state plus crash at any write; ordering monitor on the write log against the traffic oracle",
         "After a rollback or supersession, while the gateway still routes to the canary: the BatchRelease is not deleted / resumed (batchPartition nil), the workload is not handed back (control annotation removed) and the canary Service is not deleted.",
         "Same as C03.", "DESIGN.md §4 C10"),
 "C17": ("deploymc", "explicit-state BFS (level-synchronous, sharded visited set) whose transitions are real syncDeployment calls of the advanced Deployment controller composed with a ReplicaSet-controller reference model; EVERY consistent bounded state is an initial state (inductive flavour); Tarjan SCC for convergence",
         "From all 106k (quick) / 1.68 M (thorough) initial states over replicas 1..5/6, partition ints and percents, maxSurge / maxUnavailable alphabets, 1-2 old and 0-1 new ReplicaSets with availability: 566k / 8.1 M states, every one expanded by a real sync; at every ReplicaSet spec.replicas write: new ReplicaSet within the partition, old ReplicaSets not below their reserve, total within replicas + maxSurge, available old pods not below replicas - maxUnavailable; on the graph: with a partition covering all replicas every fair bottom component is {new = replicas, old = 0}.",
         "Trusted: ReplicaSet-controller model, the oracle's reading of the partition / rounding rules (stated in the evidence assumptions); no informer lag.", "DESIGN.md §4 C17"),
 "C18": ("clustermc", "explicit-state BFS with deletion injected once per control state and crash / API error at every call of the teardown; monitor on every finalizer-removing write",
         "Whenever a controller removes its own finalizer from a Rollout / BatchRelease the residue predicate is empty at that instant (no canary route, stable Service not pinned, no BatchRelease, workload not marked controlled / in progress).",
         "TrafficRouting CR scenarios not yet in the quick tier.", "DESIGN.md §4 C18"),
 "C09": ("clustermc", "stage 1: exhaustive enumeration of Rollout specs (v1beta1 + v1alpha1, CREATE and UPDATE in every phase) through the real validating webhook; stage 2: explicit-state BFS over the real reconcilers with every class of user-patchable nextStepIndex (<0, 0, in range, len+1, MaxInt32) injected once per control state; panic monitor around every Reconcile and event handler",
         "No panic escapes any Reconcile or event handler on any explored path (recovered, top repository frame as signature).", "Stage 1 runs first (engine E3, evidence embedded under coverage.stage1_validation_enumeration): ~950k (quick) / 6.5M (thorough) CREATE / UPDATE requests in both API versions through the real validating handler, structural promises asserted on the accepted set. Same trusted base as C01 for stage 2; CRD admissibility is interpreted by the check from config/crd/bases.", "DESIGN.md §4 C09"),
 "C11": ("clustermc", "explicit-state BFS over the real reconcilers; monitor on every BatchRelease status write against the pods in the store at that instant, and on every settled state",
         "Ready is reported only when the pods in the store satisfy the batch (updated >= planned, ready within threshold, >=1 ready); currentBatch never exceeds batchPartition; Completed only after the control annotation is gone (and all pods updated+ready under WaitResume); after a degrade / scale / plan edit no settled state keeps Ready while the workload no longer satisfies it.",
         "Same trusted base as C01.", "DESIGN.md §4 C11"),
 "C19": ("schedmc", "CHESS-style bounded-preemption enumeration of ALL schedules (cooperative scheduler, depth-first over choice prefixes, preemption bound 0,1(,2)) of two Rollouts finalising concurrently through the real trafficrouting.Manager and the real process-global grace registry (sync shim injected by build overlay, every API call a scheduling point, virtual clock), differential oracle against the solo run; plus an auxiliary, sampled free-running -race stage",
         "Two Rollouts (two namespaces sharing Service/Ingress names; one namespace with similar names; heterogeneous grace periods 1s/3s and 0s/2s; every start offset) each repeatedly call the real FinalisingTrafficRouting until done: in every schedule within the bound each Rollout ends in the same store projection, performs the same writes and keeps every grace-bounded gap between dependent writes at least as long as when run alone; no deadlock, no panic. 48,904 schedules in quick (bound 1 everywhere, 2 on the small variant), 1.77 M in thorough (bound 2, 3 on the small variant). Data-race freedom cannot be decided by a cooperative scheduler: the same bodies run free on 8 goroutines under the Go race detector (1,200 finalisations) as an explicitly sampled stage; a race report with a repository frame is a violation.",
         "Trusted: controller-runtime fake client, the sync shim (falls back to plain sync when no exploration is active). Only FinalisingTrafficRouting is driven; lengthened waits are not violations.", "DESIGN.md §4 C19"),
 "C20": ("e3", "exhaustive bounded-domain enumeration of objects through the real ConvertTo/ConvertFrom with a round-trip (relational) oracle",
         "Every v1alpha1 Rollout/BatchRelease and every v1alpha1-expressible canary v1beta1 object of a finite product domain (all optional blocks nil/empty/present, 0-2 steps over a step alphabet, every provider, style annotations incl. garbage, status cursors) is converted by the real code; no panic/error, and the normalised round trip is the identity. Exhaustive within the stated domain, nothing sampled.",
         "Trusted: the hand-written 'same meaning' normaliser (absent == empty block, weight-only step == replicas w%, style by annotation) and the hand-encoded schema admissibility.", "DESIGN.md §4 C20"),
}

NOT_YET = "check not built yet in this session (work in progress, see DESIGN.md §4 for the planned decision procedure)"
ALL = ["C%02d" % i for i in range(1, 21)]

def main():
    hooks = []
    try:
        out = subprocess.check_output(["git", "-C", "/repo", "log", "--format=%h %s"], text=True)
        hooks = [l.split()[0] for l in out.splitlines() if l.split(None, 1)[1].startswith("verif hook:")]
    except Exception:
        pass
    used = sorted({v[0] for v in CHECKS.values()})
    m = {
     "version": 1,
     "setup_cmd": "./setup.sh",
     "hooks": {"guard": "go build tag 'verif' (files *_verif.go with //go:build verif)",
               "enable": "go build -tags verif -overlay /verif/.cache/overlay/overlay.json (overlay adds a clock hook to std time and a construction hook to controller-runtime; /repo untouched)",
               "baseline_off_cmd": "cd /repo && go test -vet=off -count=1 -timeout 25m ./...",
               "source_commits": hooks, "add_only": True},
     "engines": [dict(ENGINES[e], serves_properties=sorted(k for k, v in CHECKS.items() if v[0] == e)) for e in used],
     "checks": [],
     "not_applicable": [{"property_id": p, "reason": NOT_YET} for p in ALL if p not in CHECKS],
     "notes": "All checks: ./check <ID> quick|thorough (cwd /verif). Exit 0 held / 1 VIOLATION / 2 HARNESS-ERROR. Known findings: /verif/known-findings.json.",
    }
    for p in ALL:
        if p not in CHECKS: continue
        eng, tech, text, note, ref = CHECKS[p]
        m["checks"].append({"property_id": p, "quick_cmd": "./check %s quick" % p, "thorough_cmd": "./check %s thorough" % p,
            "evidence_file": "/verif/evidence/%s.json" % p, "replay_cmd_template": "./check replay {path}", "engine": ENGINES[eng]["name"],
            "level_claimed": {"category": "model_checking", "text": text, "design_ref": ref}, "level_note": note, "technique": tech})
    json.dump(m, open("/verif/MANIFEST.json", "w"), indent=1)
    print("checks:", len(m["checks"]), "not_applicable:", len(m["not_applicable"]))

main()
