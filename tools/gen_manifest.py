#!/usr/bin/env python3
"""Writes /verif/MANIFEST.json from the table below (single source of truth for the interface)."""
import json, subprocess

ENGINES = {
 "e3": {"name": "smallscope (E3)", "path": "harness/cmd/e3", "kind_free_text": "exhaustive enumeration of a bounded structured input / operation-history domain through the real functions, compared with a reference oracle"},
 "clustermc": {"name": "clustermc (E1)", "path": "harness/cmd/clustermc", "kind_free_text": "explicit-state BFS over a simulated cluster whose transitions are calls of the real reconcilers/handlers; crash and fault actors; monitors after every write"},
 "deploymc": {"name": "deploymc (E4)", "path": "harness/cmd/deploymc", "kind_free_text": "explicit-state search over the real advanced Deployment controller composed with a ReplicaSet model"},
 "schedmc": {"name": "schedmc (E2)", "path": "harness/cmd/schedmc", "kind_free_text": "bounded-preemption schedule enumeration (CHESS-style) of real code under a cooperative scheduler"},
}

# id -> (engine, technique, level text, level note, design ref)
CHECKS = {
 "C20": ("e3", "exhaustive bounded-domain enumeration of objects through the real ConvertTo/ConvertFrom with a round-trip (relational) oracle",
         "Every v1alpha1 Rollout/BatchRelease and every v1alpha1-expressible canary v1beta1 object of a finite product domain (all optional blocks nil/empty/present, 0-2 steps over a step alphabet, every provider, style annotations incl. garbage, status cursors) is converted by the real code; no panic/error, and the normalised round trip is the identity. Exhaustive within the stated domain, nothing sampled.",
         "Trusted: the hand-written 'same meaning' normaliser (absent == empty block, weight-only step == replicas w%, style by annotation) and the hand-encoded schema admissibility.", "DESIGN.md §4 C20"),
}

NOT_YET = "check not built yet in this session (work in progress, see DESIGN.md §4 for the planned decision procedure)"
ALL = ["C%02d" % i for i in range(1, 21)]

def main():
    hooks = []
    try:
        out = subprocess.check_output(["git", "-C", "/repo", "log", "--format=%h %s"], text=True)
        hooks = [l.split()[0] for l in out.splitlines() if l.split(None, 1)[1].startswith("verif hook:")]
    except Exception:
        pass
    used = sorted({v[0] for v in CHECKS.values()})
    m = {
     "version": 1,
     "setup_cmd": "./setup.sh",
     "hooks": {"guard": "go build tag 'verif' (files *_verif.go with //go:build verif)",
               "enable": "go build -tags verif -overlay /verif/.cache/overlay/overlay.json (overlay adds a clock hook to std time and a construction hook to controller-runtime; /repo untouched)",
               "baseline_off_cmd": "cd /repo && go test -vet=off -count=1 -timeout 25m ./...",
               "source_commits": hooks, "add_only": True},
     "engines": [dict(ENGINES[e], serves_properties=sorted(k for k, v in CHECKS.items() if v[0] == e)) for e in used],
     "checks": [],
     "not_applicable": [{"property_id": p, "reason": NOT_YET} for p in ALL if p not in CHECKS],
     "notes": "All checks: ./check <ID> quick|thorough (cwd /verif). Exit 0 held / 1 VIOLATION / 2 HARNESS-ERROR. Known findings: /verif/known-findings.json.",
    }
    for p in ALL:
        if p not in CHECKS: continue
        eng, tech, text, note, ref = CHECKS[p]
        m["checks"].append({"property_id": p, "quick_cmd": "./check %s quick" % p, "thorough_cmd": "./check %s thorough" % p,
            "evidence_file": "/verif/evidence/%s.json" % p, "replay_cmd_template": "./check replay {path}", "engine": ENGINES[eng]["name"],
            "level_claimed": {"category": "model_checking", "text": text, "design_ref": ref}, "level_note": note, "technique": tech})
    json.dump(m, open("/verif/MANIFEST.json", "w"), indent=1)
    print("checks:", len(m["checks"]), "not_applicable:", len(m["not_applicable"]))

main()
