#!/usr/bin/env python3
"""Generate the go build -overlay file used by every check build.

 * std time/time.go        + VerifNowHook consulted first by Now()     (whole-process virtual clock)
 * controller-runtime controller.go + VerifNewHook consulted first by controller.New
Every insertion is asserted; a toolchain / module layout that does not match fails loudly.
/repo is never touched."""
import json, os, subprocess, sys

MUT = os.environ.get("VERIF_MUT_TREE", "")
OUT = "/verif/.cache/overlay" + ("-" + MUT.strip("/").replace("/", "_") if MUT else "")
os.makedirs(OUT, exist_ok=True)
overlay = {}

def sh(*a):
    return subprocess.check_output(a, text=True).strip()

goroot = sh("go", "env", "GOROOT")
modcache = sh("go", "env", "GOMODCACHE")

# --- std time ---
src = os.path.join(goroot, "src/time/time.go")
s = open(src).read()
anchor = "func Now() Time {\n"
assert s.count(anchor) == 1, "time.Now anchor not found"
s = s.replace(anchor, anchor + "\tif VerifNowHook != nil {\n\t\treturn VerifNowHook()\n\t}\n")
s += "\n// VerifNowHook, when set, replaces the wall clock (verification harness only).\nvar VerifNowHook func() Time\n"
s += """
// VerifRealNow returns the real wall clock regardless of VerifNowHook (harness bookkeeping: deadlines, wall_s).
func VerifRealNow() Time {
	h := VerifNowHook
	VerifNowHook = nil
	t := Now()
	VerifNowHook = h
	return t
}
"""
dst = os.path.join(OUT, "time.go.txt")
open(dst, "w").write(s)
overlay[src] = dst

# --- std timers: a stretch factor (off unless a harness sets it) ---
# The repository runs every Lua script under context.WithTimeout(1 s): a REAL-time timer. A harness process that is
# starved of CPU for a second in the middle of a (microsecond) script run would see that script fail - nondeterminism
# the harness does not own. Processes that do not study the deadline itself (everything except the C16 check) stretch
# every timer created through time.AfterFunc / time.NewTimer so that it cannot fire during a run.
src = os.path.join(goroot, "src/time/sleep.go")
s = open(src).read()
for anchor in ("func NewTimer(d Duration) *Timer {\n", "func AfterFunc(d Duration, f func()) *Timer {\n"):
    assert s.count(anchor) == 1, "timer anchor not found: " + anchor
    s = s.replace(anchor, anchor + "\tif VerifTimerStretch > 0 && d > 0 && d < 1<<40 {\n\t\td *= Duration(VerifTimerStretch)\n\t}\n")
s += """
// VerifTimerStretch, when > 0, multiplies the duration of every timer created by NewTimer / AfterFunc
// (verification harness only).
var VerifTimerStretch int64
"""
dst = os.path.join(OUT, "time_sleep.go.txt")
open(dst, "w").write(s)
overlay[src] = dst

# --- runtime map iteration order (a seam the harness decides; off unless VerifMapIterFixed is set) ---
src = os.path.join(goroot, "src/runtime/map.go")
s = open(src).read()
anchor = "\tr := uintptr(rand())\n\tit.startBucket = r & bucketMask(h.B)\n"
assert s.count(anchor) == 1, "mapiterinit anchor not found"
s = s.replace(anchor, "\tr := uintptr(rand())\n\tif VerifMapIterFixed {\n\t\tr = VerifMapIterSeed\n\t}\n\tit.startBucket = r & bucketMask(h.B)\n")
s += """
// VerifMapIterFixed / VerifMapIterSeed: when set, every map iteration of the process starts at the bucket and
// in-bucket offset derived from the seed instead of a random one (verification harness only: the iteration order
// of Go maps is a source of nondeterminism that the harness has to own).
var (
	VerifMapIterFixed bool
	VerifMapIterSeed  uintptr
)
"""
dst = os.path.join(OUT, "runtime_map.go.txt")
open(dst, "w").write(s)
overlay[src] = dst

# --- controller-runtime controller.New ---
src = os.path.join(modcache, "sigs.k8s.io/controller-runtime@v0.14.6/pkg/controller/controller.go")
s = open(src).read()
anchor = "func New(name string, mgr manager.Manager, options Options) (Controller, error) {\n"
assert s.count(anchor) == 1, "controller.New anchor not found"
s = s.replace(anchor, anchor + "\tif VerifNewHook != nil {\n\t\treturn VerifNewHook(name, mgr, options)\n\t}\n")
s += "\n// VerifNewHook, when set, replaces controller construction (verification harness only).\nvar VerifNewHook func(name string, mgr manager.Manager, options Options) (Controller, error)\n"
dst = os.path.join(OUT, "crt_controller.go.txt")
open(dst, "w").write(s)
overlay[src] = dst

extra = os.path.join("/verif/tools", "overlay_extra.py")
ns = {}
if os.path.exists(extra):
    ns = {"overlay": overlay, "OUT": OUT, "goroot": goroot, "modcache": modcache}
    exec(open(extra).read(), ns)

# Mutation testing without touching /repo: VERIF_MUT_TREE names a scratch worktree of /repo; every .go file
# that differs there (or is new) is overlaid onto its /repo path. Lua files are picked up through cwd.
if MUT:
    names = subprocess.check_output(["git", "-C", MUT, "diff", "--name-only", "HEAD"], text=True).split()
    names += subprocess.check_output(["git", "-C", MUT, "ls-files", "--others", "--exclude-standard"], text=True).split()
    for n in names:
        if n.endswith(".go") and not n.endswith("_test.go"):
            src = os.path.join(MUT, n)
            # a changed file of a package that runs under the sync shim gets the same import rewrite
            if os.path.dirname(n) in ns.get("SHIM_PKGS", ()) and os.path.exists(src):
                t = ns["shim_rewrite"](open(src).read(), src)
                if t is not None:
                    src = os.path.join(OUT, "mut_vs_" + n.replace("/", "_") + ".txt")
                    open(src, "w").write(t)
            overlay[os.path.join("/repo", n)] = src
            print("mutation overlay:", n)

json.dump({"Replace": overlay}, open(os.path.join(OUT, "overlay.json"), "w"), indent=1)
print("overlay entries:", len(overlay))
