#!/usr/bin/env python3
"""Generate the go build -overlay file used by every check build.

 * std time/time.go        + VerifNowHook consulted first by Now()     (whole-process virtual clock)
 * controller-runtime controller.go + VerifNewHook consulted first by controller.New
Every insertion is asserted; a toolchain / module layout that does not match fails loudly.
/repo is never touched."""
import json, os, subprocess, sys

OUT = "/verif/.cache/overlay"
os.makedirs(OUT, exist_ok=True)
overlay = {}

def sh(*a):
    return subprocess.check_output(a, text=True).strip()

goroot = sh("go", "env", "GOROOT")
modcache = sh("go", "env", "GOMODCACHE")

# --- std time ---
src = os.path.join(goroot, "src/time/time.go")
s = open(src).read()
anchor = "func Now() Time {\n"
assert s.count(anchor) == 1, "time.Now anchor not found"
s = s.replace(anchor, anchor + "\tif VerifNowHook != nil {\n\t\treturn VerifNowHook()\n\t}\n")
s += "\n// VerifNowHook, when set, replaces the wall clock (verification harness only).\nvar VerifNowHook func() Time\n"
s += """
// VerifRealNow returns the real wall clock regardless of VerifNowHook (harness bookkeeping: deadlines, wall_s).
func VerifRealNow() Time {
	h := VerifNowHook
	VerifNowHook = nil
	t := Now()
	VerifNowHook = h
	return t
}
"""
dst = os.path.join(OUT, "time.go.txt")
open(dst, "w").write(s)
overlay[src] = dst

# --- controller-runtime controller.New ---
src = os.path.join(modcache, "sigs.k8s.io/controller-runtime@v0.14.6/pkg/controller/controller.go")
s = open(src).read()
anchor = "func New(name string, mgr manager.Manager, options Options) (Controller, error) {\n"
assert s.count(anchor) == 1, "controller.New anchor not found"
s = s.replace(anchor, anchor + "\tif VerifNewHook != nil {\n\t\treturn VerifNewHook(name, mgr, options)\n\t}\n")
s += "\n// VerifNewHook, when set, replaces controller construction (verification harness only).\nvar VerifNewHook func(name string, mgr manager.Manager, options Options) (Controller, error)\n"
dst = os.path.join(OUT, "crt_controller.go.txt")
open(dst, "w").write(s)
overlay[src] = dst

extra = os.path.join("/verif/tools", "overlay_extra.py")
if os.path.exists(extra):
    ns = {"overlay": overlay, "OUT": OUT, "goroot": goroot, "modcache": modcache}
    exec(open(extra).read(), ns)

json.dump({"Replace": overlay}, open(os.path.join(OUT, "overlay.json"), "w"), indent=1)
print("overlay entries:", len(overlay))
