# exec'd by /verif/tools/gen_overlay.py with `overlay`, `OUT`, `goroot`, `modcache` in scope.
#
# E2 (schedmc) sync shim:
#  (a) virtual package github.com/openkruise/rollouts/pkg/verifshim/vsync  (source: harness/shim/vsync.go.txt)
#  (b) pkg/util/grace and pkg/util/expectation: every non-test .go file that imports "sync" is copied with the
#      import rewritten to the shim under the SAME local name (`sync "…/vsync"`), so no other line changes.
#      Copies are regenerated from the CURRENT /repo working tree on every run; /repo is never written.
#      Files of those packages that do not import sync (grace_wrapper.go, the verif-tagged *_verif.go) are left
#      alone, after asserting that they really do not use it.
#  (c) one extra verif-tagged accessor file for package grace (lock-free snapshot for the cooperative scheduler).
# With the shim's hooks nil (all binaries except schedmc) behaviour is that of package sync.
import os as _os, re as _re, glob as _glob

_REPO = "/repo"
_SHIM_IMPORT = "github.com/openkruise/rollouts/pkg/verifshim/vsync"
_SHIM_DIR = "/verif/harness/shim"


def _put(name, content):
    # write-if-changed through a temp file: several builds may regenerate the overlay concurrently
    dst = _os.path.join(OUT, name)
    try:
        if open(dst).read() == content:
            return dst
    except OSError:
        pass
    tmp = dst + ".tmp%d" % _os.getpid()
    open(tmp, "w").write(content)
    _os.replace(tmp, dst)
    return dst


# (a)
_vs = open(_os.path.join(_SHIM_DIR, "vsync.go.txt")).read()
assert "package vsync" in _vs
assert not _os.path.exists(_os.path.join(_REPO, "pkg/verifshim")), "/repo now has pkg/verifshim"
overlay[_os.path.join(_REPO, "pkg/verifshim/vsync/vsync.go")] = _put("vsync.go.txt", _vs)

# (b)
_imp = _re.compile(r'^(\s*)"sync"[ \t]*$', _re.M)
# pkg/util/luamanager uses no lock on the unchanged tree (one fresh Lua state per call); it is on the list so that a
# change which introduces shared, locked state there is explored by the scheduler as well.
SHIM_PKGS = ("pkg/util/grace", "pkg/util/expectation", "pkg/util/luamanager")
_MAY_BE_LOCK_FREE = ("pkg/util/luamanager",)


def shim_rewrite(_s, _f):
    """Returns the text with the plain "sync" import redirected to the shim, or None if the file does not import sync."""
    _m = _imp.findall(_s)
    if not _m:
        assert '"sync"' not in _s and not _re.search(r'\bsync\.', _s), _f + ": uses sync without a plain import line"
        return None
    assert len(_m) == 1, _f + ': expected exactly one plain "sync" import'
    _t = _imp.sub(lambda m: m.group(1) + 'sync "' + _SHIM_IMPORT + '"', _s, count=1)
    assert _t != _s and ('sync "' + _SHIM_IMPORT + '"') in _t and not _imp.search(_t), _f + ": sync import not rewritten"
    for _sym in set(_re.findall(r'\bsync\.([A-Za-z_]\w*)', _t)):
        assert _re.search(r'\b(type\s+|func\s+)?' + _sym + r'\b', _vs) and (
            ("type " + _sym + " ") in _vs or ("\t" + _sym + " ") in _vs or ("func " + _sym + "(") in _vs
        ), _f + ": uses sync." + _sym + " which the vsync shim does not define"
    return _t


for _pkg in SHIM_PKGS:
    _n = 0
    _files = sorted(_glob.glob(_os.path.join(_REPO, _pkg, "*.go")))
    assert _files, "no go files in " + _pkg
    for _f in _files:
        if _f.endswith("_test.go"):
            continue
        _s = open(_f).read()
        _t = shim_rewrite(_s, _f)
        if _t is None:
            continue
        _name = "vs_" + _pkg.replace("/", "_") + "_" + _os.path.basename(_f) + ".txt"
        overlay[_f] = _put(_name, _t)
        _n += 1
    assert _n >= 1 or _pkg in _MAY_BE_LOCK_FREE, _pkg + ": no file importing sync found (layout changed?)"

# (c)
_g = open(_os.path.join(_SHIM_DIR, "grace_verif_sched.go.txt")).read()
_target = _os.path.join(_REPO, "pkg/util/grace/grace_verif_sched.go")
assert not _os.path.exists(_target), "grace_verif_sched.go now exists in /repo"
overlay[_target] = _put("grace_verif_sched.go.txt", _g)
