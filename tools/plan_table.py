#!/usr/bin/env python3
"""Regenerates the table of E1 plans in DESIGN.md (section 0.5) from harness/sim/catalog.go."""
import re
src = open('/verif/harness/sim/catalog.go').read()
scen = {}
for m in re.finditer(r'(?:m\[)?"(Q\w+)"\]?(?: = &Scenario|:) ?\{(ID.*?)\n\t+Steps: \[\]StepSpec\{(.*?)\}\}', src, re.S):
    sid, head, steps = m.group(1), m.group(2), m.group(3)
    kv = dict(re.findall(r'(\w+): ("[^"]*"|\w+)', head))
    st = []
    for s in re.findall(r'\{([^{}]*)\}', steps + '}'):
        d = dict(re.findall(r'(\w+): "([^"]*)"', s))
        t = d.get('Replicas', '')
        if 'Traffic' in d: t += '@' + d['Traffic']
        if 'Pause' in s: t += ' (timed pause)'
        st.append(t)
    extras = [k for k in ('RolloutID', 'RollbackInBatch', 'StaleCanaryService', 'Recreate', 'HPA', 'TRCR', 'CustomDR', 'PatchPodMeta') if kv.get(k) == 'true']
    if kv.get('MaxSurge'): extras.append('maxSurge ' + kv['MaxSurge'].strip('"') + ' / maxUnavailable ' + kv.get('MaxUnavailable', '').strip('"'))
    if kv.get('Grace') == '0': extras.append('grace 0')
    scen[sid] = "%s %s ×%s%s; steps %s%s" % (kv.get('Kind', '').strip('"'), kv.get('Style', '').strip('"'), kv.get('Replicas', ''), (', ' + kv['Traffic'].strip('"')) if 'Traffic' in kv else '', ', '.join(st), ('; ' + ', '.join(extras)) if extras else '')
c06 = re.search(r'c06Scenarios := \[\]string\{(.*?)\}', src).group(1)
rows = []
for m in re.finditer(r'"(C\d\d)": \{Scenarios: (\[\]string\{(.*?)\}|c06Scenarios), (.*?\n.*?)\n', src):
    pid, sc, rest = m.group(1), m.group(3) if m.group(3) is not None else c06, m.group(4)
    acts = re.search(r'Actions: \[\]string\{(.*?)\}', rest)
    dist = re.search(r'Disturbances: \[\]string\{(.*?)\}', rest)
    mu = re.search(r'MaxUser: (\w+)', rest)
    rows.append((pid, sc.replace('"', ''), (acts.group(1).replace('"', '') if acts else '—'), (mu.group(1) if mu else '0').replace('u', '1 quick / 2 thorough'), (dist.group(1).replace('"', '') if dist else '—'), 'real queues + liveness' if 'Liveness: true' in rest else 'free queues'))
out = ["| property | scenarios | user deviations | budget | disturbances | mode |", "|---|---|---|---|---|---|"]
for r in sorted(rows):
    out.append("| %s | %s | %s | %s | %s | %s |" % r)
out.append("")
out.append("| scenario | content |")
out.append("|---|---|")
for k in sorted(scen, key=lambda x: (len(x), x)):
    out.append("| %s | %s |" % (k, scen[k]))
table = "\n".join(out) + "\n"
p = '/verif/DESIGN.md'
s = open(p).read()
s2, n = re.subn(r'(<!-- PLANTABLE-BEGIN -->\n).*?(<!-- PLANTABLE-END -->)', lambda m: m.group(1) + table + m.group(2), s, flags=re.S)
assert n == 1
open(p, 'w').write(s2)
print(len(rows), "plans,", len(scen), "scenarios")
