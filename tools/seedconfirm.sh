#!/bin/bash
# tools/seedconfirm.sh seeded/<id> ...   confirm a stored seed: in a fresh scratch worktree of /repo (at the path the
# seed's demo.sh expects) the demonstration passes without the patch and fails with it. Writes seeded/<id>/confirm.txt.
export GOFLAGS=-mod=mod GOPROXY=off GOSUMDB=off GOTOOLCHAIN=local
for d in "$@"; do
  d=$(cd "$d" && pwd); id=$(basename "$d")
  W=$(grep -oE '/tmp/seed[0-9]+/C[0-9]+' "$d/demo.sh" | head -1)
  RUNCWD=""
  # first-round seeds: demo.sh is written to be run from the root of a checkout
  [ -z "$W" ] && { W=/tmp/seedconf/$id; RUNCWD=1; mkdir -p /tmp/seedconf; }
  [ -e "$W" ] && { echo "$id: $W exists, skipping"; continue; }
  git -C /repo worktree add -q --detach "$W" HEAD || continue
  # the agents' demo.sh copies its test file from <worktree>.out: recreate that directory from the stored seed when it is gone
  MADEOUT=""; [ -z "$RUNCWD" ] && [ ! -d "$W.out" ] && { mkdir -p "$W.out"; cp "$d"/* "$W.out"/; MADEOUT=1; }
  if [ -n "$RUNCWD" ]; then ( cd "$W" && sh "$d/demo.sh" ) > /tmp/seedconfirm-$id.clean.log 2>&1; rc_clean=$?; else bash "$d/demo.sh" > /tmp/seedconfirm-$id.clean.log 2>&1; rc_clean=$?; fi
  ( cd "$W" && git apply "$d/patch.diff" ) || { echo "$id: patch does not apply"; git -C /repo worktree remove --force "$W"; continue; }
  ( cd "$W" && go build ./... ) > /tmp/seedconfirm-$id.build.log 2>&1; rc_build=$?
  if [ -n "$RUNCWD" ]; then ( cd "$W" && sh "$d/demo.sh" ) > /tmp/seedconfirm-$id.seed.log 2>&1; rc_seed=$?; else bash "$d/demo.sh" > /tmp/seedconfirm-$id.seed.log 2>&1; rc_seed=$?; fi
  git -C /repo worktree remove --force "$W"
  echo "seed=$id demo_without_patch_exit=$rc_clean build_with_patch_exit=$rc_build demo_with_patch_exit=$rc_seed confirmed=$([ $rc_clean -eq 0 ] && [ $rc_build -eq 0 ] && [ $rc_seed -ne 0 ] && echo yes || echo NO)" | tee "$d/confirm.txt"
  [ -n "$MADEOUT" ] && rm -rf "$W.out"
  rm -f /tmp/seedconfirm-$id.*.log
done
