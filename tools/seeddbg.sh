#!/bin/bash
# tools/seeddbg.sh <seed-dir> : build clustermc against /repo + the seed (overlay) and leave tree and binary in
# place for manual worker runs: prints the binary path. Clean up with tools/seeddbg.sh -c <seed-dir>.
set -u
cd /verif; . ./env.sh
clean=0; [ "$1" = "-c" ] && { clean=1; shift; }
d="$(cd "$1" && pwd)"; b=$(basename "$d"); tree=/tmp/verif-mut/dbg-$b
tag=$(echo "$tree" | tr '/' '_'); tag=${tag#_}
if [ $clean = 1 ]; then git -C /repo worktree remove --force "$tree"; rm -rf .cache/bin-$tag .cache/overlay-$tag; exit 0; fi
git -C /repo worktree remove --force "$tree" >/dev/null 2>&1; rm -rf "$tree"; mkdir -p /tmp/verif-mut
git -C /repo worktree add -q --detach "$tree" HEAD && git -C "$tree" apply "$d/patch.diff" || exit 3
export VERIF_MUT_TREE="$tree" VERIF_OVERLAY=/verif/.cache/overlay-$tag/overlay.json
mkdir -p .cache/bin-$tag
python3 tools/gen_overlay.py >/dev/null && ( cd harness && go build -tags verif -overlay "$VERIF_OVERLAY" -o /verif/.cache/bin-$tag/clustermc ./cmd/clustermc ) && echo "cd $tree && VERIF_OUT_ROOT=$tree/.verif-out /verif/.cache/bin-$tag/clustermc --worker PROP SCEN out.json"
