#!/usr/bin/env python3
"""Writes seeded/<id>/meta.json from the agent's notes.md and the latest lines of seeded/RESULTS.tsv."""
import json, os, re, glob
res = {}
if os.path.exists('/verif/seeded/RESULTS.tsv'):
    for l in open('/verif/seeded/RESULTS.tsv'):
        f = l.rstrip('\n').split('\t')
        if len(f) >= 3:
            m = re.search(r'seed=(\S+) property=(\S+) tier=(\S+) exit=(\d+)', f[2])
            if m:
                res.setdefault(m.group(1), {})[m.group(2)] = {"time": f[0], "tier": m.group(3), "exit": int(m.group(4)), "violations": (f[3].split() if len(f) > 3 else [])}
extra = json.load(open('/verif/seeded/EXTRA.json')) if os.path.exists('/verif/seeded/EXTRA.json') else {}
for d in sorted(glob.glob('/verif/seeded/C*')):
    sid = os.path.basename(d)
    prop = sid.split('-')[0]
    notes = open(os.path.join(d, 'notes.md')).read() if os.path.exists(os.path.join(d, 'notes.md')) else ''
    runs = res.get(sid, {})
    meta = {
        "id": sid, "breaks_property": prop,
        "origin": "written by an independent sub-agent that was given only the text of the property and a scratch worktree (nothing from /verif); confirmed here: patch applies, repository builds, demonstration fails with the change and passes without",
        "what_it_needs_to_manifest": extra.get(sid, {}).get("needs", ""),
        "agent_notes": notes.strip()[:3000],
        "how_it_is_run": "tools/seedtest.sh seeded/%s %s  (patch applied in a scratch worktree under /tmp/verif-mut and overlaid at build time via VERIF_MUT_TREE; /repo untouched)" % (sid, prop),
        "check_results": runs,
        "detected": any(r["exit"] == 1 for r in runs.values()),
        "remarks": extra.get(sid, {}).get("remarks", ""),
    }
    json.dump(meta, open(os.path.join(d, 'meta.json'), 'w'), indent=1)
    print(sid, "detected" if meta["detected"] else "NOT detected", {k: v["exit"] for k, v in runs.items()})
