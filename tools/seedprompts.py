#!/usr/bin/env python3
"""tools/seedprompts.py <round-dir e.g. /tmp/seed6> [IDs...]: writes <round-dir>/<ID>.prompt from tools/briefs/seeder.md.
The AVOID list is the first line of the notes of every seed already stored for the property (the agent sees only
that one line per earlier seed, nothing else from /verif)."""
import sys, json, glob, os, re
rd = sys.argv[1]
ids = sys.argv[2:] or ["C%02d" % i for i in range(1, 21)]
tpl = open('/verif/tools/briefs/seeder.md').read()
props = {json.loads(l)['id']: json.loads(l) for l in open('/verif/properties.jsonl')}
os.makedirs(rd, exist_ok=True)
for pid in ids:
    avoid = []
    for d in sorted(glob.glob('/verif/seeded/%s-a*' % pid)):
        n = os.path.join(d, 'notes.md')
        if not os.path.exists(n):
            continue
        lines = [l.strip() for l in open(n) if l.strip() and not l.startswith('#')]
        if lines:
            avoid.append('  * ' + lines[0][:330])
    extra = "\nDo not use `git stash` (the stash is shared with /repo); to run the reverted case use `git apply -R` on your own patch file and re-apply it afterwards.\n"
    p = tpl.replace('{TREE}', rd + '/' + pid).replace('{OUT}', rd + '/' + pid + '.out').replace('{AVOID}', '\n'.join(avoid) + extra).replace('{PROPERTY}', json.dumps(props[pid], indent=1))
    open(os.path.join(rd, pid + '.prompt'), 'w').write(p)
    print(pid, len(avoid), 'earlier seeds listed')
