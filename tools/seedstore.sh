#!/bin/bash
# tools/seedstore.sh <round-dir e.g. /tmp/seed8> <suffix e.g. a7> <ID> ...
# Stores the deliverables of a seeding agent (<round-dir>/<ID>.out) as seeded/<ID>-<suffix>, removes the agent's
# scratch worktree, re-confirms the seed in a fresh worktree (tools/seedconfirm.sh) and runs the property's quick
# check against it (tools/seedsweep.sh). A seed that is not confirmed is removed again.
cd /verif
rd=$1; suf=$2; shift 2
for id in "$@"; do
  o=$rd/$id.out; d=seeded/$id-$suf
  [ -f "$o/patch.diff" ] && [ -f "$o/demo.sh" ] || { echo "$id: deliverables missing in $o"; continue; }
  mkdir -p "$d"; cp "$o"/patch.diff "$o"/demo.sh "$o"/notes.md "$d"/ 2>/dev/null; cp "$o"/*_test.go "$d"/ 2>/dev/null
  git -C /repo worktree remove --force "$rd/$id" >/dev/null 2>&1; rm -rf "$rd/$id"
  tools/seedconfirm.sh "$d"
  grep -q "confirmed=yes" "$d/confirm.txt" 2>/dev/null || { echo "$id: NOT confirmed, dropping $d"; rm -rf "$d"; continue; }
  tools/seedsweep.sh "$d"
done
