#!/bin/bash
# tools/seedsweep.sh [seed-dir ...]  — run every stored seeded change against the check of its property
# (property = directory name prefix), sequentially; results appended to seeded/RESULTS.tsv
cd /verif
seeds=("$@"); [ ${#seeds[@]} -gt 0 ] || seeds=(seeded/C*)
for d in "${seeds[@]}"; do
  d=${d%/}; b=$(basename "$d"); prop=${b%%-*}
  [ -f "$d/patch.diff" ] || continue
  out=$(tools/seedtest.sh "$d" "$prop" quick 2>&1 | tail -1)
  sig=$(grep -E "^VIOLATION" ".cache/seedtest-$b-$prop.log" | head -3 | sed 's/.*replay=\/verif\/out\///' | tr '\n' ' ')
  printf "%s\t%s\t%s\t%s\n" "$(date +%H:%M)" "$b" "$out" "$sig" | tee -a seeded/RESULTS.tsv
done
