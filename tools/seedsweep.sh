#!/bin/bash
# tools/seedsweep.sh [-j N] [seed-dir ...] — run stored seeded changes against the check of their property
# (property = directory name prefix), N at a time; one result line each appended to seeded/RESULTS.tsv
cd /verif
J=1; [ "${1:-}" = "-j" ] && { J=$2; shift 2; }
seeds=("$@"); [ ${#seeds[@]} -gt 0 ] || seeds=(seeded/C*)
run1() {
  d=${1%/}; b=$(basename "$d"); prop=${b%%-*}
  [ -f "$d/patch.diff" ] || return
  out=$(tools/seedtest.sh "$d" "$prop" quick 2>&1 | tail -1)
  sig=$(grep -E "^VIOLATION" ".cache/seedtest-$b-$prop.log" | head -3 | sed 's/.*\/out\///' | tr '\n' ' ')
  printf "%s\t%s\t%s\t%s\n" "$(date +%H:%M)" "$b" "$out" "$sig" | tee -a seeded/RESULTS.tsv
}
export -f run1
printf "%s\n" "${seeds[@]}" | xargs -P "$J" -I{} bash -c 'run1 {}'
