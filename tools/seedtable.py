#!/usr/bin/env python3
"""Prints the markdown table of DESIGN.md §7a from seeded/<id>/meta.json (run tools/seedmeta.py first)."""
import json, glob, os, re
print("| seed | change (agent's words, first line) | needs to manifest | caught by its property's check | signatures / remarks |")
print("|---|---|---|---|---|")
for f in sorted(glob.glob('/verif/seeded/C*/meta.json')):
    m = json.load(open(f))
    first = ''
    for l in m.get('agent_notes', '').split('\n'):
        l = l.strip().lstrip('-#* ').strip()
        if l and not re.match(r'^C\d\d seed', l):
            first = l
            break
    first = re.sub(r"\s+", " ", first)[:150].replace('|', '/')
    runs = m.get('check_results', {})
    own = runs.get(m['breaks_property'])
    if own is None:
        caught = 'not run'
        sigs = ''
    else:
        caught = 'yes' if own['exit'] == 1 else 'NO'
        sigs = ' '.join(sorted(set(os.path.splitext(os.path.basename(v))[0] for v in own.get('violations', []))))[:200]
    rem = m.get('remarks', '')
    print("| %s | %s | %s | %s | %s |" % (m['id'], first, m.get('what_it_needs_to_manifest', '').replace('|', '/')[:220], caught, (sigs + ('; ' if sigs and rem else '') + rem).replace('|', '/')))
