#!/bin/bash
# tools/seedtest.sh <seed-dir> <property> [tier]  — apply a seeded change to /repo, run the check, ALWAYS revert.
set -u
d="$(cd "$1" && pwd)"; prop="$2"; tier="${3:-quick}"
[ -z "$(git -C /repo status --short)" ] || { echo "REFUSING: /repo has uncommitted changes"; exit 3; }
git -C /repo apply "$d/patch.diff" || { echo "patch does not apply"; exit 3; }
trap 'git -C /repo checkout -- . ; git -C /repo clean -fdq -- pkg api lua_configuration' EXIT
/verif/check "$prop" "$tier" > "/verif/.cache/seedtest-$(basename $d)-$prop.log" 2>&1
rc=$?
grep -E "^(VIOLATION|KNOWN-FINDING|HARNESS-ERROR)" "/verif/.cache/seedtest-$(basename $d)-$prop.log" | head -5
tail -1 "/verif/.cache/seedtest-$(basename $d)-$prop.log"
echo "seed=$(basename $d) property=$prop tier=$tier exit=$rc"
exit 0
