#!/bin/bash
# tools/seedtest.sh <seed-dir> <property> [tier]
# Runs the check of <property> against /repo + the seeded change WITHOUT touching /repo: the patch is applied
# in a scratch worktree under /tmp/verif-mut and overlaid at build time (VERIF_MUT_TREE, see ./check).
set -u
d="$(cd "$1" && pwd)"; prop="$2"; tier="${3:-quick}"
b=$(basename "$d")
tree=/tmp/verif-mut/$b-$prop
git -C /repo worktree remove --force "$tree" >/dev/null 2>&1; rm -rf "$tree"
mkdir -p /tmp/verif-mut
git -C /repo worktree add -q --detach "$tree" HEAD || { echo "cannot create worktree"; exit 3; }
cleanup() { git -C /repo worktree remove --force "$tree" >/dev/null 2>&1; rm -rf "/verif/.cache/bin-tmp_verif-mut_$b-$prop" "/verif/.cache/overlay-tmp_verif-mut_$b-$prop"; }
trap cleanup EXIT
git -C "$tree" apply "$d/patch.diff" || { echo "seed=$b property=$prop patch does not apply"; exit 3; }
log="/verif/.cache/seedtest-$b-$prop.log"
VERIF_MUT_TREE="$tree" /verif/check "$prop" "$tier" > "$log" 2>&1
rc=$?
grep -E "^(VIOLATION|HARNESS-ERROR)" "$log" | head -4
tail -1 "$log" | cut -c1-220
echo "seed=$b property=$prop tier=$tier exit=$rc"
exit 0
